"""Self-tests of the machinery itself.

    check.py selftest setup          environment check + small determinism sample
    check.py selftest determinism    N seeds per driver: twice in-process, again in a fresh
                                     interpreter with another PYTHONHASHSEED and reversed order,
                                     and through the fork pool with another worker count
    check.py selftest digests        (internal) print {driver: {seed: digest}} as JSON

A mismatch is a HARNESS-ERROR (exit 2): it can never become a pass or a finding.
"""

import os
import sys
import json
import importlib
import subprocess

from sim import runner
from sim.choices import derive_seed

MODULES = ['c16', 'c17', 'c18', 'c07']


def _modules():
    out = []
    for m in MODULES:
        try:
            out.append(importlib.import_module('props.' + m))
        except ImportError:
            pass
    return out


def _seeds(name, n):
    return [derive_seed('selftest', name, i) for i in range(n)]


def digests(n, reverse=False, only=None):
    """{cfg name: {seed: digest}} computed in this process."""
    runner.warmup()
    for mod in _modules():
        # one-time set-up of every property's workload (the C07 corpus imports hundreds of modules)
        # happens before the first run, not between runs of other drivers
        if hasattr(mod, 'warmup'):
            mod.warmup()
    out = {}
    for mod in _modules():
        drivers, cfgs = mod.setup('quick')
        for name in sorted(drivers):
            full = '{0}/{1}'.format(mod.PROP, name)
            if only and full not in only:
                continue
            cfg = dict(cfgs[name])
            cfg['selftest'] = True
            if 'max_injections_per_world' in cfg:
                cfg['max_injections_per_world'] = 60
            seeds = _seeds(full, n)
            if reverse:
                seeds = list(reversed(seeds))
            d = {}
            for s in seeds:
                res = runner.run_one(drivers[name], cfg, seed=s, timeout=300)
                d[str(s)] = res.digest() + ':' + str(len(res.violations))
            out[full] = d
            # variants forcing the rarer modes of a driver (eg. C17: pre-history + fine yield points)
            for vi, over in enumerate(getattr(mod, 'SELFTEST_VARIANTS', {}).get(name, [])):
                vfull = '{0}#{1}'.format(full, vi)
                if only and vfull not in only:
                    continue
                vcfg = dict(cfg)
                vcfg.update(over)
                d = {}
                vseeds = sorted(seeds)[:max(2, n // 2)]
                if reverse:
                    vseeds.reverse()
                for s in vseeds:
                    res = runner.run_one(drivers[name], vcfg, seed=s, timeout=300)
                    d[str(s)] = res.digest() + ':' + str(len(res.violations))
                out[vfull] = d
    return out


def _compare(a, b, what):
    bad = []
    for k in a:
        for s in a[k]:
            if a[k][s] != b.get(k, {}).get(s):
                bad.append('{0}: {1} seed {2}: {3} != {4}'.format(what, k, s, a[k][s], b.get(k, {}).get(s)))
    return bad


def determinism(n):
    first = digests(n)
    second = digests(n, reverse=True)
    bad = _compare(first, second, 'same process, reversed order')
    for hs in ('1', '4242'):
        env = dict(os.environ)
        env['PYTHONHASHSEED'] = hs
        p = subprocess.run([sys.executable, os.path.join(runner.VERIF_DIR, 'check.py'), 'selftest', 'digests',
                            '--n', str(n)], env=env, stdout=subprocess.PIPE, stderr=subprocess.PIPE, timeout=1800)
        if p.returncode != 0:
            bad.append('fresh interpreter failed: ' + p.stderr.decode()[-500:])
            continue
        line = [l for l in p.stdout.decode().splitlines() if l.startswith('{')][-1]
        bad.extend(_compare(first, json.loads(line), 'fresh interpreter PYTHONHASHSEED=' + hs))
    total = sum(len(v) for v in first.values())
    print('determinism: {0} drivers x {1} seeds, each run 4 times (2 in-process orders, 2 fresh interpreters '
          'with other PYTHONHASHSEED): {2} mismatches'.format(len(first), n, len(bad)))
    for b in bad[:20]:
        print('HARNESS-ERROR determinism mismatch ' + b)
    return 2 if bad else 0


def setup_check():
    import sigtools
    ok = hasattr(sys, 'monitoring')
    print('python {0}; sys.monitoring: {1}; sigtools from {2}'.format(
        sys.version.split()[0], ok, os.path.dirname(sigtools.__file__)))
    if not ok:
        print('HARNESS-ERROR sys.monitoring (CPython >= 3.12) is required')
        return 2
    first = digests(3)
    second = digests(3, reverse=True)
    bad = _compare(first, second, 'same process')
    for b in bad:
        print('HARNESS-ERROR determinism mismatch ' + b)
    print('setup ok' if not bad else 'setup FAILED')
    return 2 if bad else 0


def main(args):
    sub = args.sub or 'setup'
    n = args.n or 12
    if sub == 'setup':
        return setup_check()
    if sub == 'digests':
        print(json.dumps(digests(n, reverse=True)))
        return 0
    if sub == 'determinism':
        return determinism(n)
    print('unknown selftest ' + sub)
    return 2
