"""C07 -- retrieval is total and only ever narrows (claimed in part).

What the simulation decides: the clauses that depend on the *environment* --
the state of the source seam (file missing / empty / torn / edited since import /
replaced / undecodable) and which objects of the forwarding chain CPython can
introspect at all (signature-less callables planted in every role).  All C07
faults are persistent states of the environment, so the reference (the real
inspect.signature) sees exactly the same world as sigtools does.

Workloads: generated adversarial sources (W-constructs), the generated world
templates, and a deterministic corpus of real callables from the importable
standard library and site-packages (for those the seam is the linecache entry of
the real file, faulted in the cache only -- files on disk are never touched).
"""

import io
import os
import sys
import inspect
import linecache
import functools
import importlib
import contextlib

from sim import worlds, snapshot
from sim.choices import Choices
from sim.runner import RunResult, Violation

PROP = 'C07'

FAULT_KINDS = ['none', 'src-missing', 'src-empty', 'src-truncated', 'src-shifted', 'src-replaced',
               'src-undecodable']

ENTRIES = ['sigtools.signature', 'sigtools.signature(auto=False)', 'signatures.signature']


def call_entry(name, subj):
    import sigtools
    from sigtools import signatures
    if name == 'sigtools.signature':
        return sigtools.signature(subj)
    if name == 'sigtools.signature(auto=False)':
        return sigtools.signature(subj, auto=False)
    return signatures.signature(subj)


# ---------------------------------------------------------------------------
# source seam: count reads, apply faults

_reads = {}
_orig_getlines = [None]


def _counting_getlines(filename, module_globals=None):
    _reads[filename] = _reads.get(filename, 0) + 1
    return _orig_getlines[0](filename, module_globals)


def install_seam():
    if _orig_getlines[0] is None:
        _orig_getlines[0] = linecache.getlines
        linecache.getlines = _counting_getlines


GARBAGE = [
    ['def (:\n', ')(\n'],      # (no NUL bytes: those trip a CPython tokenizer SystemError, not sigtools)
    ['"""unterminated\n', 'still inside\n'],
    ['    )]}\n', '\t \tx = (\n'],
    ['\ufffd\ufffd = \\\n'],
    ['def f(a, *args, **kwargs:\n', '        return\n', '  x\n'],
]

SHIFT_LINES = [
    ['# a comment\n'],
    ['\n', '\n'],
    ['X = 1\n'],
    ['class Inserted(object):\n', '    pass\n'],
    ['def inserted(b, *args, **kwargs):\n', '    return h(*args, **kwargs)\n'],
    ['@ident\n'],
    ['x = [\n', '    1,\n'],
    ['if True:\n'],
]


def fault_lines(ch, kind, lines, other_lines, first_line_hint=None):
    """New content of 'the file' (list of lines) or None for a missing file."""
    n = len(lines)
    if kind == 'src-missing':
        return None
    if kind == 'src-empty':
        return []
    if kind == 'src-truncated':
        lo = first_line_hint if first_line_hint is not None else 0
        cut = lo + ch.draw(max(1, n - lo + 1), 'cut-line')
        out = list(lines[:cut])
        if out and ch.draw(2, 'mid-line'):
            last = out[-1]
            out[-1] = last[:ch.draw(max(1, len(last)), 'cut-col')]
        return out
    if kind == 'src-shifted':
        if ch.draw(2, 'shift-direction') and n > 2:
            k = 1 + ch.draw(min(4, n - 1), 'remove-k')
            at = ch.draw(max(1, (first_line_hint or n) - k + 1), 'remove-at')
            return list(lines[:at]) + list(lines[at + k:])
        ins = SHIFT_LINES[ch.draw(len(SHIFT_LINES), 'insert-what')]
        at = ch.draw((first_line_hint if first_line_hint is not None else n) + 1, 'insert-at')
        return list(lines[:at]) + list(ins) + list(lines[at:])
    if kind == 'src-replaced':
        return list(other_lines)
    if kind == 'src-undecodable':
        g = GARBAGE[ch.draw(len(GARBAGE), 'garbage')]
        if ch.draw(2, 'garbage-everywhere'):
            return [g[i % len(g)] for i in range(max(n, 3))]
        at = ch.draw(n + 1, 'garbage-at')
        return list(lines[:at]) + list(g) + list(lines[at + len(g):])
    return list(lines)


# ---------------------------------------------------------------------------
# W-constructs: generated adversarial sources

PRELUDE = worlds.HEADER + '''
def g(x, y=1, *, z=2):
    return ('g', x, y, z)

def h(p, q):
    return ('h', p, q)

def g2(x, y=1, /, *, z=2):
    return ('g2', x, y, z)

def g3(x, /, y, *more, k, z=2, **extra):
    return ('g3', x, y, more, k, z, extra)

def g4(*, only_kw=0):
    return ('g4', only_kw)

def g5(x=0, y=1, /, w=2, *, z=3):
    return ('g5', x, y, w, z)

def ident(*a, **k):
    return a[-1] if a else None

def deco(*a):
    def _d(fn):
        return fn
    return _d

G = 0
'''

# statements that may appear in a function body; {va}/{vk} are the star names
STATEMENTS = [
    'return g(*{va}, **{vk})',
    'yield g(*{va}, **{vk})',
    'yield from ident(g(*{va}, **{vk}))',
    'if (r := g(*{va}, **{vk})):\n    return r',
    'match a0:\n    case 1:\n        return g(*{va}, **{vk})\n    case [x0, *rest0]:\n        return g(x0, *rest0)\n    case {{"k": v0, **kw0}}:\n        return g(**kw0)\n    case _:\n        pass',
    'r0 = [g(*{va}, **{vk}) for _ in range(2)]',
    'r0 = {{k0: g(*{va}, **{vk}) for k0 in {vk}}}',
    'r0 = {{g(*{va}, **{vk}) for {va} in [()]}}',
    'r0 = list(g(*a1, **{vk}) for a1 in [{va}])',
    'r0 = g(*{va}, *{va}, **{vk})',
    'r0 = g(*{va}, **{vk}, **{vk})',
    'r0 = g(*[1, 2], **{vk})',
    'global G\nG = g(*{va}, **{vk})',
    'def nested():\n    nonlocal {va}\n    {va} = ()\n    return g(*{va}, **{vk})\nnested()',
    'class Local(object):\n    x0 = g(*{va}, **{vk})',
    'try:\n    r0 = g(*{va}, **{vk})\nexcept* ValueError:\n    pass\nfinally:\n    pass',
    'with contextmanager0() as cm0:\n    r0 = g(*{va}, **{vk})',
    'for i0 in range(2):\n    r0 = g(*{va}, **{vk})\nelse:\n    r0 = h(*{va}, **{vk})',
    'while False:\n    r0 = h(*{va}, **{vk})',
    'del {vk}["z"]\nr0 = g(*{va}, **{vk})',
    '{vk}["z"] = 1\nr0 = g(*{va}, **{vk})',
    '{vk}.pop("y", None)\nr0 = g(*{va}, **{vk})',
    '{va} = {va}[1:]\nr0 = g(*{va}, **{vk})',
    'first0, *rest1 = {va}\nr0 = g(first0, *rest1, **{vk})',
    'r0 = f"{{g(*{va}, **{vk})!r:>{{10}}}}"',
    'r0 = g(*{va}, **{vk}) if {va} else h(*{va}, **{vk})',
    'r0 = (lambda *a2, **k2: g(*a2, **k2))(*{va}, **{vk})',
    'r0 = lambda d0={va}: g(*d0, **{vk})',
    'return lambda: g(*{va}, **{vk})',
    '@deco(\n    1,\n    2)\ndef inner0(*a3, **k3):\n    return g(*a3, **k3)\nr0 = inner0(*{va}, **{vk})',
    'type Alias0 = int\nr0 = g(*{va}, **{vk})',
    'assert g(*{va}, **{vk}), "msg"',
    'try:\n    raise ValueError\nexcept ValueError as e0:\n    raise TypeError from e0',
    'r0 = functools.partial(g, *{va}, **{vk})',
    'r0 = functools.partial(g, 1)(*{va}, **{vk})',
    'r0 = obj0.attr.method(*{va}, **{vk})',
    'r0 = [g, h][0](*{va}, **{vk})',
    'r0 = g(*{va}, **{vk})(*{va}, **{vk})',
    'r0 = super().missing(*{va}, **{vk})',
    'import os as os0\nr0 = os0.path.join(*{va}, **{vk})',
    'r0 = print(*{va}, **{vk})',
    'r0 = max(*{va}, **{vk})',
    'r0 = dict(*{va}, **{vk})',
    'r0 = K0(*{va}, **{vk})',
    'r0 = g(*{va}, **{vk}); r1 = h(*{va}, **{vk})',
    'r0 = \\\n    g(*{va},\n      **{vk})',
    'r0 = undefined_name0(*{va}, **{vk})',
    # forwarding only one of the stars, explicit arguments, other callees
    'return g2(1, **{vk})',
    'return g2(*{va})',
    'return g2(*{va}, **{vk})',
    'return g3(1, **{vk})',
    'return g3(*{va}, k=1, **{vk})',
    'return g3(1, 2, 3, *{va}, **{vk})',
    'return g4(**{vk})',
    'return g4(*{va}, **{vk})',
    'return g(1, **{vk})',
    'return g(y=5, *{va}, **{vk})',
    'return h(*{va})',
    'return h(1, *{va}, **{vk})',
    'return K0(1, **{vk})',
    'return str.strip(**{vk})',
    'return "sep".join(*{va}, **{vk})',
    'return functools.partial(*{va}, **{vk})',
    'return functools.partial(g2, **{vk})',
    'return g(**{vk})',
    'return g(*{va})',
    'return g2(**{vk})',
    'return g3(*{va}, k=1)',
    'return g3(1, 2, k=3, **{vk})',
    'return g5(**{vk})',
    'return g5(*{va})',
    'return g5(1, **{vk})',
    'return "abc".strip(**{vk})',
    'return int(**{vk})',
    'return sorted(*{va})',
    'return sorted([], **{vk})',
    # starred expressions that are not the function's own stars
    'return g(*{va}, **NONE0)',
    'return g(*NUM0, **{vk})',
    'return g(*{va}, **STR0)',
    'return g(*DICT0, **{vk})',
    'return g(*{va}, **DICT0)',
    'return g(*LIST0, *{va}, **{vk})',
    'return g(*obj0.missing, **{vk})',
    'return g(*{va}, **obj0.missing)',
    'return g(*(), **{vk})',
    'return g(*{va}, **{{}})',
    'return f(1, *{va}, **{vk})',
    # names whose resolution runs code of the program: failing getters, iterables that run code
    'return obj0.raising_prop(*{va}, **{vk})',
    'return obj0.raising_prop.deeper(*{va}, **{vk})',
    'return obj0.key_prop(*{va}, **{vk})',
    'return g(*GEN0, **{vk})',
    'return g(*{va}, **MAP0)',
    'return g(*ITERABLE0, **{vk})',
    'return g(*GEN1, **{vk})',
    'return proxy0(*{va}, **{vk})',
    'return proxy1(*{va}, **{vk})',
    # an expression nested deeper than the interpreter's recursion limit lets a visitor descend
    'return g(*{va}, **{vk})' + ' + 1' * 1500,
    'return f(*{va}, extra0=1, **{vk})',
    # nested definitions with every kind of parameter
    'def nested1(p, *, kwreq):\n    return g(*{va}, **{vk})\nreturn nested1(1, kwreq=2)',
    'r0 = lambda p, *, kwreq: g(*{va}, **{vk})',
    'def nested2(p=g(*{va}, **{vk}), /, q=1, *r, s, t=2, **u):\n    return p\nreturn nested2(s=1)',
    'async def nested3(*a4, k4=None, **k5):\n    return g(*a4, **k5)\nreturn nested3(*{va}, **{vk})',
    '@functools.wraps(g)\ndef nested4(*a4, **k4):\n    return g(*a4, **k4)\nreturn nested4(*{va}, **{vk})',
    'class Local2(object):\n    def meth(self, *a4, k4, **k5):\n        return g(*{va}, **{vk})\nreturn Local2().meth(k4=1)',
    'r0 = [lambda *, k4: g(*{va}, **{vk}) for _ in range(1)]',
    'def gen0(*, k4):\n    yield g(*{va}, **{vk})\nreturn list(gen0(k4=1))',
]

HEADERS = [
    'def f({params}):',
    'async def f({params}):',
    'def f[T]({params}) -> T:',
    '@deco(\n    1,\n    2,\n)\n@ident\ndef f({params}):',
    'def f(\n        {params}\n):',
    'def f({params}): # comment (with) brackets [',
]

PARAMS = [
    ('a0, *args, **kwargs', 'args', 'kwargs'),
    ('*args, **kwargs', 'args', 'kwargs'),
    ('a0, b0=2, *rest, k0=3, **kw', 'rest', 'kw'),
    ('a0, /, b0, *args, **kwargs', 'args', 'kwargs'),
    ('a0: int, *args: str, **kwargs: float', 'args', 'kwargs'),
    # only one star: the other kind of argument cannot be forwarded at all, so what the callee
    # still offers there must not leak into the result (narrowing)
    ('a0, **kwargs', None, 'kwargs'),
    ('a0, *args', 'args', None),
    ('a0, b0=1, /, **kw', None, 'kw'),
    ('*args, k0=3', 'args', None),
    ('**kwargs', None, 'kwargs'),
]

WHOLE = [
    # (name, module text after prelude, subjects)
    ('lambda_assigned', 'f = lambda *args, **kwargs: g(*args, **kwargs)\n', ['f']),
    ('lambda_passed', 'f = ident(lambda *a, **k: g(*a, **k))\n', ['f']),
    ('lambda_multi_line', 'f = (lambda *a, **k:\n     g(*a, **k))\n', ['f']),
    ('lambda_continuation', 'f = ident(1,\n          lambda *a, **k: g(*a, **k))\n', ['f']),
    ('two_lambdas_per_line', 'f, f2 = (lambda *a, **k: g(*a, **k)), (lambda *a, **k: h(*a, **k))\n', ['f', 'f2']),
    ('lambda_in_default', 'def f(a, cb=lambda *a, **k: g(*a, **k), *args, **kwargs):\n    return cb(*args, **kwargs)\n',
     ['f', 'f.__defaults__[0]']),
    ('self_recursive', 'def f(a, *args, **kwargs):\n    return f(*args, **kwargs)\n', ['f']),
    ('mutual_recursive', 'def f(a, *args, **kwargs):\n    return f2(*args, **kwargs)\n\n'
                         'def f2(b, *args, **kwargs):\n    return f(*args, **kwargs)\n', ['f', 'f2']),
    ('exec_defined', 'ns0 = {"g": g}\nexec("def f(a, *args, **kwargs):\\n    return g(*args, **kwargs)\\n", ns0)\n'
                     'f = ns0["f"]\n', ['f']),
    ('eval_lambda', 'f = eval("lambda *a, **k: g(*a, **k)")\n', ['f']),
    ('class_members',
     'class C(object):\n'
     '    def __init__(self, a=0, *args, **kwargs):\n        self.v = g(0, *args, **kwargs)\n'
     '    def m(self, a, *args, **kwargs):\n        return self.t(*args, **kwargs)\n'
     '    def t(self, p, q=1):\n        return p\n'
     '    @classmethod\n    def cm(cls, a, *args, **kwargs):\n        return g(*args, **kwargs)\n'
     '    @staticmethod\n    def sm(a, *args, **kwargs):\n        return g(*args, **kwargs)\n'
     '    @property\n    def prop(self):\n        return 1\n'
     '    def __call__(self, a, *args, **kwargs):\n        return g(*args, **kwargs)\n'
     '    pm = functools.partialmethod(m, 1)\n'
     'c = C()\nclass CSub(C):\n    pass\ncsub = CSub()\n',
     ['C', 'C.m', 'c.m', 'C.cm', 'c.cm', 'C.sm', 'c', "C.__dict__['sm']", "C.__dict__['cm']", 'c.pm', 'C.prop.fget',
      'CSub.sm', 'CSub.cm', 'CSub.m', 'csub.m', 'CSub']),
    ('new_and_meta',
     'class Meta(type):\n    def __call__(cls, a, *args, **kwargs):\n        return super().__call__(*args, **kwargs)\n'
     'class N(object, metaclass=Meta):\n'
     '    def __new__(cls, b, *args, **kwargs):\n        return super().__new__(cls)\n'
     '    def __init__(self, b, c=1):\n        pass\n',
     ['N', 'Meta']),
    ('partials',
     'def f(a, *args, **kwargs):\n    return g(*args, **kwargs)\n'
     'p1 = functools.partial(f, 1)\np2 = functools.partial(p1, 2, z=3)\np3 = functools.partial(g, y=5)\n',
     ['p1', 'p2', 'p3']),
    ('lru_cached', '@functools.lru_cache(maxsize=None)\ndef f(a, *args, **kwargs):\n    return g(*args, **kwargs)\n'
                   '@functools.cache\ndef f2(a):\n    return a\n', ['f', 'f2']),
    ('singledispatch', '@functools.singledispatch\ndef f(a, *args, **kwargs):\n    return g(*args, **kwargs)\n', ['f']),
    ('wraps_chain',
     'def d0(fn):\n    @functools.wraps(fn)\n    def w(a, *args, **kwargs):\n        return fn(*args, **kwargs)\n    return w\n'
     '@d0\n@d0\ndef f(x, y=1):\n    return x\n', ['f']),
    ('decorator_returns_other', 'def swap(fn):\n    return g\n@swap\ndef f(a, *args, **kwargs):\n    return h(*args, **kwargs)\n', ['f']),
    ('closure_target',
     'def make(t):\n    def f(a, *args, **kwargs):\n        return t(*args, **kwargs)\n    return f\n'
     'f = make(g)\nf2 = make(max)\nf3 = make(None)\n', ['f', 'f2', 'f3']),
    ('dataclass', 'import dataclasses\n@dataclasses.dataclass\nclass D:\n    a: int\n    b: str = "s"\n', ['D']),
    ('attrs_class', 'import attr\n@attr.define\nclass A:\n    a: int\n    b: str = "s"\n', ['A']),
    ('kwargs_only_forward', 'def f(a, **kwargs):\n    return g(a, **kwargs)\n', ['f']),
    ('args_only_forward', 'def f(a, *args):\n    return g(*args)\n', ['f']),
    ('one_line_def', 'def f(a, *args, **kwargs): return g(*args, **kwargs)\n', ['f']),
    ('two_defs_one_line', 'def f(a, *args, **kwargs): return g(*args, **kwargs)\ndef f2(*a, **k): return h(*a, **k)\n', ['f', 'f2']),
    ('semicolon_def', 'X = 1; f = lambda *a, **k: g(*a, **k); Y = 2\n', ['f']),
    ('nested_return_def',
     'def outer():\n    def f(a, *args, **kwargs):\n        return g(*args, **kwargs)\n    return f\nf = outer()\n', ['f']),
    ('tabs', 'def f(a, *args, **kwargs):\n\treturn g(*args, **kwargs)\n', ['f']),
    ('docstring_dedent', 'class C(object):\n    def m(self, a, *args, **kwargs):\n        """doc\n\n    dedented line\n        """\n        return g(*args, **kwargs)\nc = C()\n', ['c.m', 'C.m']),
    ('unicode_names', 'def f(\u00e9, *\u00e0rgs, **kw\u00e0rgs):\n    return g(*\u00e0rgs, **kw\u00e0rgs)\n', ['f']),
    ('partial_of_star_args', 'def f(*args, **kwargs):\n    return functools.partial(*args, **kwargs)\n', ['f']),
    ('method_without_self', 'class A0(object):\n    def m(**kwargs):\n        return g(**kwargs)\n'
                            '    def m2(*args):\n        return g(*args)\na0 = A0()\n', ['a0.m', 'A0.m', 'a0.m2', 'A0.m2']),
    ('unhashable_callable', 'class U0(object):\n    def __eq__(self, other):\n        return type(self) is type(other)\n'
                            '    def __call__(self, a, *args, **kwargs):\n        return g(*args, **kwargs)\n'
                            'u0 = U0()\ndef f(b, *args, **kwargs):\n    return u0(*args, **kwargs)\n', ['u0', 'f']),
    ('unhashable_forwarder', 'import dataclasses\n@dataclasses.dataclass\nclass Cfg:\n    n: int = 0\n'
                             '    def __call__(self, a, *args, **kwargs):\n        return g(*args, **kwargs)\n'
                             'cfg = Cfg()\npcfg = functools.partial(cfg, 1)\n', ['cfg', 'pcfg', 'Cfg']),
    ('growing_recursion', 'def f(*a, **k):\n    return f(1, *a, **k)\n'
                          'def f2(*a, **k):\n    return f2(*a, more=1, **k)\n'
                          'def f3(a, *args, **kwargs):\n    return f4(a, a, *args, **kwargs)\n'
                          'def f4(b, *args, **kwargs):\n    return f3(b, b, *args, **kwargs)\n', ['f', 'f2', 'f3', 'f4']),
    ('callee_takes_no_self',
     'def noargs():\n    return 0\n'
     'class B0(object):\n'
     '    def m(self, *args, **kwargs):\n        return noargs(*args, **kwargs)\n'
     '    def m2(*args, **kwargs):\n        return noargs(*args, **kwargs)\n'
     '    def m3(*args, **kwargs):\n        return g4(*args, **kwargs)\n'
     '    def m4(*args):\n        return g4(*args)\n'
     '    @classmethod\n    def cm(*args, **kwargs):\n        return noargs(*args, **kwargs)\n'
     'b0 = B0()\n', ['b0.m', 'b0.m2', 'b0.m3', 'b0.m4', 'B0.m2', 'B0.cm', 'b0.cm']),
    ('mock_objects',
     'import unittest.mock as um\nmk = um.Mock()\nmm = um.MagicMock()\nncm = um.NonCallableMock()\n'
     'spec_mock = um.Mock(spec=g)\nauto_mock = um.create_autospec(g)\n'
     'def f(a, *args, **kwargs):\n    return mk(*args, **kwargs)\n'
     'def f2(a, *args, **kwargs):\n    return auto_mock(*args, **kwargs)\n'
     'wrapped_mock = functools.wraps(mk)(lambda *a, **k: mk(*a, **k))\n'
     'umcall = um.call\numany = um.ANY\n',
     ['mk', 'mm', 'ncm', 'spec_mock', 'auto_mock', 'f', 'f2', 'mk.method', 'wrapped_mock', 'umcall', 'umany']),
    ('answers_every_attribute',
     'class Echo(object):\n    def __getattr__(self, name):\n        return Echo()\n'
     '    def __call__(self, x, y=1):\n        return x\n'
     'class Lam(object):\n    def __getattr__(self, name):\n        return lambda *a, **k: None\n'
     '    def __call__(self, x, y=1):\n        return x\n'
     'class Num(object):\n    def __getattr__(self, name):\n        return 42\n'
     '    def __call__(self, x, y=1):\n        return x\n'
     'class Non(object):\n    def __getattr__(self, name):\n        return None\n'
     '    def __call__(self, x, y=1):\n        return x\n'
     'class Kerr(object):\n    def __getattr__(self, name):\n        raise KeyError(name)\n'
     '    def __call__(self, x, y=1):\n        return x\n'
     'class Dunder(object):\n    def __getattr__(self, name):\n'
     '        if name.startswith("__"):\n            raise AttributeError(name)\n        return Dunder()\n'
     '    def __call__(self, x, y=1):\n        return x\n'
     'echo, lam, num, non, nodoc_kerr, dunder = Echo(), Lam(), Num(), Non(), Kerr(), Dunder()\n'
     'def f(a, *args, **kwargs):\n    return dunder(*args, **kwargs)\n'
     'def f2(a, *args, **kwargs):\n    return lam(*args, **kwargs)\n'
     'def f3(a, *args, **kwargs):\n    return non(*args, **kwargs)\n',
     ['echo', 'lam', 'num', 'non', 'nodoc_kerr', 'dunder', 'f', 'f2', 'f3', 'Echo', 'Dunder']),
    ('shared_code_objects',
     'import types\n'
     'def f(a, b=1, *args, **kwargs):\n    return g5(*args, **kwargs)\n'
     'f2 = types.FunctionType(f.__code__, f.__globals__, "f2", None, f.__closure__)\n'
     'f3 = types.FunctionType(f.__code__, f.__globals__, "f3", (7, 8), f.__closure__)\n'
     'f4 = types.FunctionType(f.__code__, dict(f.__globals__, g5=h), "f4", (1,), f.__closure__)\n'
     'def make(t, d):\n    def fw(a, b=d, *args, k=d, **kwargs):\n        return t(*args, **kwargs)\n    return fw\n'
     'm1, m2, m3 = make(g, 1), make(h, 2), make(g5, 3)\n'
     'm4 = make(g, 4)\nm4.__defaults__ = None\nm4.__kwdefaults__ = None\n',
     ['f3', 'f', 'f2', 'f4', 'm1', 'm2', 'm3', 'm4']),
    ('declaration_without_target',
     'class Ham0(object):\n'
     '    @specifiers.forwards_to_method("missing")\n'
     '    def spam(self, c, *args, **kwargs):\n        return self.missing(*args, **kwargs)\n'
     '    @specifiers.forwards_to_method("missing", emulate=True)\n'
     '    def spam2(self, c, *args, **kwargs):\n        return self.missing(*args, **kwargs)\n'
     '    @specifiers.forwards_to_method("later.deep")\n'
     '    def spam3(self, c, *args, **kwargs):\n        return self.later.deep(*args, **kwargs)\n'
     'class Base0(object):\n    pass\n'
     'class Sub0(Base0):\n'
     '    @specifiers.forwards_to_super()\n'
     '    def m(self, a, *args, **kwargs):\n        return super().m(*args, **kwargs)\n'
     'ham0 = Ham0()\nsub0 = Sub0()\n',
     ['ham0.spam', 'ham0.spam2', 'ham0.spam3', 'Ham0.spam', 'sub0.m', 'Sub0.m']),
    ('partials_that_do_not_fit',
     'def f(a, **kwargs):\n    return g(a, **kwargs)\n'
     'def f2(a, *args, **kwargs):\n    return g(*args, **kwargs)\n'
     'class M0(object):\n    def m(self, a, **kwargs):\n        return g(a, **kwargs)\nm0 = M0()\n'
     'p_toomany = functools.partial(f, 1, 2)\n'
     'p_badkw = functools.partial(f2, 1, nosuch=3)\n'
     'p_twice = functools.partial(f, 1, a=2)\n'
     'p_of_p = functools.partial(functools.partial(f, 1), 2)\n'
     'p_toomany2 = functools.partial(f2, 1, 2, 3, 4)\n'
     'pm_toomany = functools.partial(m0.m, 1, 2)\n'
     'p_ok = functools.partial(f2, 1, 2)\n',
     ['p_toomany', 'p_badkw', 'p_twice', 'p_of_p', 'p_toomany2', 'pm_toomany', 'p_ok']),
    ('partials_naming_positional_only',
     'def k(a, /, b, *args, **kwargs):\n    return g(*args, **kwargs)\n'
     'def k2(x, /, **kw):\n    return x\n'
     'p1 = functools.partial(k, 1, a=3)\np2 = functools.partial(k, a=3)\n'
     'p3 = functools.partial(k2, 1, x=2)\np4 = functools.partial(k2, x=2)\n'
     'def user(u, *args, **kwargs):\n    return k(u, *args, a=1, **kwargs)\n',
     ['p1', 'p2', 'p3', 'p4', 'user']),
    ('module_level_bound_methods',
     'class R0(object):\n    def randint(self, a, b):\n        return a\n'
     '    def fwd(self, a, *args, **kwargs):\n        return g(*args, **kwargs)\n'
     '    @classmethod\n    def make(cls, n=1):\n        return cls()\n'
     '_inst = R0()\nrandint = _inst.randint\nfwd = _inst.fwd\nmake = R0.make\ninst0 = _inst\n',
     ['randint', 'fwd', 'make', 'inst0.randint', 'R0.make', 'R0.randint']),
    ('same_named_stars_three_levels',
     'def innermost(x, *args, **kwargs):\n    return x\n'
     'def middle(name=None, *args, **kwargs):\n    return innermost(*args, **kwargs)\n'
     'def outer(*args, **kwargs):\n    return middle(*args, name=1, **kwargs)\n'
     'def outer2(a, *args, **kwargs):\n    return middle(a, *args, name=1, **kwargs)\n'
     'class M1(object):\n    def meth(self, *args, **kwargs):\n        return middle(*args, name=1, **kwargs)\nm1 = M1()\n'
     'pmid = functools.partial(middle, name=1)\npmid2 = functools.partial(middle, 1, 2)\n',
     ['outer', 'outer2', 'm1.meth', 'M1.meth', 'pmid', 'pmid2', 'middle']),
    ('builtins_module_globals',
     'import builtins as _b0\n'
     'ns1 = {"g": g, "__builtins__": _b0}\n'
     'exec(compile("def f(a, *args, **kwargs):\\n    return print(*args, **kwargs)\\n"\n'
     '             "def f2(a, *args, **kwargs):\\n    return not_defined_anywhere0(*args, **kwargs)\\n"\n'
     '             "def f3(a, *args, **kwargs):\\n    return g(*args, **kwargs)\\n", "<sim-exec-b0>", "exec"), ns1)\n'
     'import linecache as _lc0\n'
     '_src0 = ("def f(a, *args, **kwargs):\\n    return print(*args, **kwargs)\\n"\n'
     '         "def f2(a, *args, **kwargs):\\n    return not_defined_anywhere0(*args, **kwargs)\\n"\n'
     '         "def f3(a, *args, **kwargs):\\n    return g(*args, **kwargs)\\n")\n'
     '_lc0.cache["<sim-exec-b0>"] = (len(_src0), None, _src0.splitlines(True), "<sim-exec-b0>")\n'
     'f, f2, f3 = ns1["f"], ns1["f2"], ns1["f3"]\n', ['f', 'f2', 'f3']),
    ('descriptors_that_need_a_real_instance',
     'class Desc0(object):\n'
     '    def __init__(self, exc):\n        self.exc = exc\n'
     '    def __get__(self, inst, owner):\n'
     '        if inst is None:\n            return self\n'
     '        if self.exc is AttributeError:\n            return inst.registry0[self]\n'
     '        raise self.exc("needs a real instance")\n'
     '    def __call__(self, a, *args, **kwargs):\n        return g(*args, **kwargs)\n'
     'class Holder0(object):\n'
     '    d_attr = Desc0(AttributeError)\n    d_key = Desc0(KeyError)\n    d_run = Desc0(RuntimeError)\n'
     '    d_type = Desc0(TypeError)\n'
     '    def __init__(self):\n        self.registry0 = {}\n',
     ['Holder0.d_attr', 'Holder0.d_key', 'Holder0.d_run', 'Holder0.d_type', 'Holder0']),
    ('decorated_staticmethods',
     '@wrappers.decorator\ndef deco0(func, *args, dp=False, **kwargs):\n    return func(*args, **kwargs)\n'
     'class DS0(object):\n'
     '    @modifiers.kwoargs("k")\n    @staticmethod\n    def ksm(a, k=1):\n        return a\n'
     '    @deco0\n    @staticmethod\n    def dsm(p, q):\n        return p\n'
     '    @staticmethod\n    @modifiers.kwoargs("k")\n    def skm(a, k=1):\n        return a\n'
     '    @staticmethod\n    def fsm(a, *args, **kwargs):\n        return g(*args, **kwargs)\n'
     'class DSub0(DS0):\n    pass\n',
     ['DS0.ksm', 'DS0.dsm', 'DS0.skm', 'DS0.fsm', 'DSub0.ksm', 'DSub0.dsm', 'DSub0.fsm']),
    ('borrowed_forwards_to_super',
     'class A1(object):\n    def func(self, x, y=1):\n        return x\n'
     'class B1(A1):\n    @specifiers.forwards_to_super()\n    def func(self, a, *args, **kwargs):\n'
     '        return super().func(*args, **kwargs)\n'
     'class Other1(object):\n    pass\nOther1.func = B1.__dict__["func"]\nother1 = Other1()\nb1 = B1()\n',
     ['b1.func', 'other1.func', 'Other1.func']),
    ('pep563_module', '#FUTURE#\nimport typing\n'
                      'def noparams() -> typing.List[int]:\n    return []\n'
                      'def fwd(*args, **kwargs) -> int:\n    return g(*args, **kwargs)\n'
                      'def some(a: int, b: "str" = "s", *args: typing.Any, **kwargs) -> None:\n    return g(*args, **kwargs)\n'
                      'def unevaluable(a: NotDefinedAnywhere) -> AlsoNot:\n    return a\n'
                      'Ann0 = int\n'
                      'def ann_alias(a: Ann0, *args, **kwargs) -> Ann0:\n    return g(*args, **kwargs)\n'
                      'def ann_plain(a: Ann0) -> typing.List[Ann0]:\n    return []\n'
                      'REG0 = {}\nCH0 = (1, 2)\n'
                      'def bad_key(a: REG0["unknown"]) -> int:\n    return a\n'
                      'def bad_index(a) -> typing.Literal[CH0[2]]:\n    return a\n'
                      'def bad_zero(a: typing.Annotated[int, 1 // 0]):\n    return a\n'
                      'def bad_import(a) -> __import__("missing_mod_xyz0").X:\n    return a\n'
                      'def bad_fwd(*args, **kwargs) -> REG0["unknown"]:\n    return g(*args, **kwargs)\n'
                      'class Conn(object):\n'
                      '    def close(self) -> None:\n        pass\n'
                      '    def send(self, data: bytes, *, flags: int = 0) -> int:\n        return 0\n'
                      '    @classmethod\n    def default(cls) -> Conn:\n        return cls()\n'
                      '    @staticmethod\n    def version() -> typing.Tuple[int, int]:\n        return (1, 0)\n'
                      '    def fwd(self, *args, **kwargs) -> typing.Optional[int]:\n        return g(*args, **kwargs)\n'
                      'conn = Conn()\n',
     ['noparams', 'fwd', 'some', 'unevaluable', 'ann_alias', 'ann_plain', 'bad_key', 'bad_index', 'bad_zero', 'bad_import', 'bad_fwd', 'Conn.close', 'Conn.send', 'Conn.default', 'Conn.version', 'Conn.fwd',
      'conn.close', 'conn.fwd', 'Conn']),
    ('annotated_eager', 'import typing\n'
                        'def noparams() -> typing.List[int]:\n    return []\n'
                        'def fwd(*args, **kwargs) -> "int":\n    return g(*args, **kwargs)\n'
                        'def ret_tuple(a) -> (int, str):\n    return a\n'
                        'def ret_empty_tuple(a) -> ():\n    return a\n'
                        'def ret_one_tuple(a, *args, **kwargs) -> (int,):\n    return g(*args, **kwargs)\n'
                        'def ret_dict(a) -> {"k": 1}:\n    return a\n'
                        'def ret_percent(a) -> "100%s":\n    return a\n'
                        'class Conn(object):\n    def close(self) -> None:\n        pass\n'
                        '    def fwd(self, *args, **kwargs) -> typing.Optional[int]:\n        return g(*args, **kwargs)\n',
     ['noparams', 'fwd', 'Conn.close', 'Conn.fwd', 'ret_tuple', 'ret_empty_tuple', 'ret_one_tuple', 'ret_dict', 'ret_percent']),
    ('generic_class', 'class B[T]:\n    def m(self, a: T, *args, **kwargs) -> T:\n        return g(*args, **kwargs)\nb = B()\n', ['b.m', 'B.m', 'B']),
]

# sig-unavailable(role): a callable CPython cannot introspect, planted per role
SIGLESS = ['max', 'min', 'iter', 'type', 'next', 'getattr', 'vars', 'dir', 'range', 'map', 'zip', 'super',
           'bytes', 'slice', 'classmethod', 'int', 'str', 'dict', 'print', 'len', '42', 'None',
           'BadSigV()', 'BadSigT()', 'BadWrappedV()']

SIGLESS_PRELUDE = '''
class BadSigV(object):
    @property
    def __signature__(self):
        raise ValueError("no signature")
    def __call__(self, *a, **k):
        return None

class BadSigT(object):
    @property
    def __signature__(self):
        raise TypeError("no signature")
    def __call__(self, *a, **k):
        return None

class BadWrappedV(object):
    @property
    def __wrapped__(self):
        raise ValueError("no wrapped")
    def __call__(self, x, y=1):
        return None
'''

ROLES = [
    ('subject', 'S = {c}\n', ['S']),
    ('wrapped_target', 'def w(a, *args, **kwargs):\n    return T(*args, **kwargs)\nT = {c}\nw.__wrapped__ = T\n', ['w']),
    ('callee', 'T = {c}\ndef f(a, *args, **kwargs):\n    return T(*args, **kwargs)\n', ['f']),
    ('callee_attr', 'class Holder(object):\n    t = staticmethod({c}) if callable({c}) else {c}\nho = Holder()\n'
                    'def f(a, *args, **kwargs):\n    return ho.t(*args, **kwargs)\n', ['f']),
    ('partial_target', 'T = {c}\nS = functools.partial(T, 1) if callable(T) else T\n'
                       'def f(a, *args, **kwargs):\n    return S(*args, **kwargs)\n', ['S', 'f']),
    ('forwards_to_function', 'T = {c}\n@specifiers.forwards_to_function(T)\n'
                             'def f(a, *args, **kwargs):\n    return T(*args, **kwargs)\n', ['f']),
    ('forwards_to_method', 'class M(object):\n    t = staticmethod({c}) if callable({c}) else {c}\n'
                           '    @specifiers.forwards_to_method("t")\n'
                           '    def m(self, a, *args, **kwargs):\n        return self.t(*args, **kwargs)\nmo = M()\n',
     ['mo.m', 'M.m']),
    ('decorator_wrapped', 'T = {c}\n@wrappers.decorator\ndef d(func, *args, p=1, **kwargs):\n    return func(*args, **kwargs)\n'
                          'S = d(T) if callable(T) else T\n', ['S']),
    ('pok_inner', 'T = {c}\ndef f(a, b=0, *args, **kwargs):\n    return T(*args, **kwargs)\nf = modifiers.kwoargs("b")(f)\n', ['f']),
    ('combination', 'T = {c}\ndef c1(arg, *args, **kwargs):\n    return T(*args, **kwargs)\n'
                    'S = wrappers.Combination(c1, T) if callable(T) else T\n', ['S']),
]


def indent(text, n):
    pad = ' ' * n
    return ''.join(pad + l if l.strip() else l for l in text.splitlines(True))


def gen_construct(ch):
    """A generated module exercising drawn Python constructs."""
    mode = ch.weighted([5, 3, 3], 'construct-mode')
    if mode == 1:
        name, text, subjects = WHOLE[ch.draw(len(WHOLE), 'whole')]
        if '#FUTURE#' in text:
            return dict(template='construct:' + name, params=dict(whole=name),
                        source='from __future__ import annotations\n' + PRELUDE + '\n' + text.replace('#FUTURE#', ''),
                        subjects=dict((s, s) for s in subjects), tags={'construct'})
        return dict(template='construct:' + name, params=dict(whole=name), source=PRELUDE + '\n' + text,
                    subjects=dict((s, s) for s in subjects), tags={'construct'})
    if mode == 2:
        ri = ch.draw(len(ROLES), 'role')
        ci = ch.draw(len(SIGLESS), 'sigless')
        role, text, subjects = ROLES[ri]
        c = SIGLESS[ci]
        if role in ('forwards_to_function', 'forwards_to_method', 'combination') and c in ('42', 'None', 'BadSigT()'):
            # a declaration naming a non-callable / TypeError-raising target is a usage error the
            # statement does not speak about (it names ValueError only): not generated
            c = 'BadSigV()'
        if role == 'decorator_wrapped' and c == 'type':
            # update_wrapper() copies type.__dict__ onto the wrapper; inspect itself then raises
            # AttributeError for follow_wrapped=False -- an artefact of inspect, not of sigtools
            c = 'max'
        return dict(template='sigless:' + role, params=dict(role=role, callable=c),
                    source=PRELUDE + SIGLESS_PRELUDE + '\n' + text.format(c=c),
                    subjects=dict((s, s) for s in subjects), tags={'sigless'})
    hi = ch.draw(len(HEADERS), 'header')
    params, va, vk = PARAMS[ch.draw(len(PARAMS), 'params')]
    nst = 1 + ch.draw(3, 'n-statements')
    usable = [i for i, st in enumerate(STATEMENTS)
              if (va is not None or '{va}' not in st) and (vk is not None or '{vk}' not in st)]
    sts = [usable[ch.draw(len(usable), 'statement')] for _ in range(nst)]
    body = ''
    for si in sts:
        body += STATEMENTS[si].format(va=va, vk=vk) + '\n'
    method = ch.draw(3, 'as-method')
    extra = ('class K0(object):\n    def __init__(self, p=0, *a, **k):\n        pass\n\n'
             'class Obj0(object):\n    raising_prop = property(lambda self: 1 // 0)\n'
             '    key_prop = property(lambda self: {}["missing"])\nobj0 = Obj0()\n'
             'def _gen0():\n    raise RuntimeError("iterated")\n    yield 1\nGEN0 = _gen0()\nGEN1 = iter([1, 2])\n'
             'import collections.abc\n'
             'class Map0(collections.abc.Mapping):\n    def __getitem__(self, k):\n        raise RuntimeError("read")\n'
             '    def __iter__(self):\n        raise RuntimeError("iterated")\n    def __len__(self):\n        return 1\n'
             '    def keys(self):\n        raise RuntimeError("keys")\nMAP0 = Map0()\n'
             'class Proxy0(object):\n    def __getattr__(self, name):\n        raise RuntimeError("working outside of context")\n'
             '    def __call__(self, *a, **k):\n        return None\nproxy0 = Proxy0()\n'
             'class Proxy1(object):\n    def __getattr__(self, name):\n        raise LookupError(name)\n'
             '    def __call__(self, x, y=1):\n        return None\nproxy1 = Proxy1()\n'
             'class Iterable0(object):\n    def __iter__(self):\n        raise OSError("iterated")\nITERABLE0 = Iterable0()\n'
             'NONE0 = None\nNUM0 = 5\nSTR0 = "ab"\nDICT0 = {"y": 1}\nLIST0 = [1]\n'
             '@contextlib.contextmanager\ndef contextmanager0():\n    yield 1\n')
    future = ch.draw(4, 'postponed-annotations') == 1
    src = ('from __future__ import annotations\n' if future else '') + PRELUDE + 'import contextlib\n' + extra + '\n'
    header = HEADERS[hi].format(params=params if not method else 'self, ' + params)
    if future and '->' not in header:
        header = header.replace('):', ') -> typing0.Optional[int]:', 1) if header.rstrip().endswith('):') else header
        src += 'import typing as typing0\n'
    if method:
        src += 'class Owner(object):\n' + indent(header + '\n' + indent(body, 4), 4) + '\nowner = Owner()\n'
        subjects = {'owner.f': 'owner.f', 'Owner.f': 'Owner.f'}
    else:
        src += header + '\n' + indent(body, 4)
        subjects = {'f': 'f'}
    return dict(template='construct:generated', params=dict(header=hi, params=params, statements=sts, method=method, future=future),
                source=src, subjects=subjects, tags={'construct'})


GEN_TEMPLATES = ['wraps', 'wraps_annot', 'sigattr', 'fwd', 'meth', 'mod', 'deco', 'asforged', 'comb', 'builtin', 'instdep', 'chain', 'siblings']


def draw_gen_spec(ch, cfg):
    if ch.chance(2, 3, 'constructs-vs-templates'):
        return gen_construct(ch)
    return worlds.draw_spec(ch, GEN_TEMPLATES, max_forged=1, max_depth=2)


# ---------------------------------------------------------------------------
# oracle

def reference(subj):
    try:
        return ('ok', inspect.signature(subj))
    except Exception as e:
        return ('exc', type(e))


def has_forger(subj):
    """Does the object (or what retrieval would look at) carry an explicit
    forwards_to_* style forger?  (ValueError is then an allowed outcome.)"""
    from sigtools import _util
    seen = 0
    try:
        for o in _util.iter_call(subj):
            seen += 1
            try:
                if getattr(o, '_sigtools__forger', None) is not None:
                    return True
            except Exception:
                return True
            if seen > 6:
                break
    except Exception:
        pass
    return False


def is_plain(subj):
    """plain function or method: no declared forger, __signature__ or __wrapped__."""
    import types
    f = subj
    if isinstance(f, types.MethodType):
        f = f.__func__
    if not isinstance(f, types.FunctionType):
        return False
    d = f.__dict__
    return not ('__wrapped__' in d or '__signature__' in d or '_sigtools__forger' in d)


def call_shapes(sig, limit=64):
    """Call shapes (n positional, keyword names) derived from a signature."""
    names_kw = [p.name for p in sig.parameters.values()
                if p.kind in (p.POSITIONAL_OR_KEYWORD, p.KEYWORD_ONLY)]
    npos = len([p for p in sig.parameters.values() if p.kind in (p.POSITIONAL_ONLY, p.POSITIONAL_OR_KEYWORD)])
    names_kw = names_kw[:5] + ['zz_unknown']
    shapes = []
    for n in range(0, npos + 3):
        for mask in range(1 << len(names_kw)):
            kws = tuple(nm for i, nm in enumerate(names_kw) if mask >> i & 1)
            shapes.append((n, kws))
    if len(shapes) > limit:
        # deterministic thinning
        step = len(shapes) / float(limit)
        shapes = [shapes[int(i * step)] for i in range(limit)]
    return shapes


def narrowing_violation(result, own):
    """A call shape accepted by result but rejected by the function's own def
    parameter list (collisions excepted), or None."""
    for n, kws in call_shapes(result):
        args = tuple(range(n))
        kwargs = dict((k, 0) for k in kws)
        try:
            result.bind(*args, **kwargs)
        except TypeError:
            continue
        try:
            own.bind(*args, **kwargs)
        except TypeError as e:
            if 'multiple values' in str(e):
                continue
            return (n, kws, str(e))
    return None


def check_subject(res, tpl, label, subj, fault, viol, want_sphinx=None):
    """T1/T2/T3 (+T4) for one subject in the current state of the world."""
    from sigtools import signatures
    ref = reference(subj)
    forger = has_forger(subj)
    plain = is_plain(subj)
    outs = []
    for entry in ENTRIES:
        res.evals += 1
        try:
            r = call_entry(entry, subj)
            out = ('ok', r)
        except RecursionError as e:
            out = ('exc', type(e))
        except Exception as e:
            out = ('exc', type(e))
        outs.append(out)
        if ref[0] == 'ok':
            if out[0] == 'exc':
                if forger and issubclass(out[1], ValueError):
                    res.counters['outcome:forger-ValueError'] += 1
                    continue
                viol('T1', '{0} raises {1} where inspect.signature succeeds'.format(entry, out[1].__name__),
                     '{0}({1}) under {2}: inspect.signature -> {3}'.format(entry, label, fault, ref[1]))
                return outs
            if not isinstance(out[1], signatures.UpgradedSignature):
                viol('T1', '{0} returned a non-UpgradedSignature'.format(entry),
                     '{0}({1}) -> {2!r}'.format(entry, label, type(out[1])))
                return outs
            if plain:
                own = ref[1]
                if str(out[1]) != str(own):
                    res.counters['probe:plain_function_refined'] += 1
                    nv = narrowing_violation(out[1], own)
                    if nv is not None:
                        viol('T3', '{0} widens a plain function'.format(entry),
                             '{0}({1}) under {2}: result {3} accepts call (npos={4}, kw={5}) that def {6} rejects: {7}'.format(
                                 entry, label, fault, out[1], nv[0], nv[1], own, nv[2]))
                        return outs
            res.counters['outcome:' + ('refined' if str(out[1]) != str(ref[1]) else 'plain')] += 1
        else:
            if out[0] == 'ok':
                if forger:
                    continue
                viol('T2', '{0} returns where inspect.signature raises {1}'.format(entry, ref[1].__name__),
                     '{0}({1}) under {2} -> {3}'.format(entry, label, fault, out[1]))
                return outs
            if out[1] is not ref[1]:
                if forger and issubclass(out[1], ValueError):
                    continue
                viol('T2', '{0} raises {1} where inspect.signature raises {2}'.format(
                    entry, out[1].__name__, ref[1].__name__),
                     '{0}({1}) under {2}'.format(entry, label, fault))
                return outs
            res.counters['outcome:same-exception'] += 1
    return outs


def check_sphinx(res, dotted, viol, fault):
    """T4: the Sphinx hook on a documentable object."""
    try:
        from sigtools import sphinxext, specifiers, _util
    except Exception:
        res.counters['sphinx_unavailable'] += 1
        return
    try:
        # the harness's own lookup, not sigtools': the expectation must not share a cache or a
        # mistake with the code under test
        parent, obj = _fetch_dotted(dotted)
    except Exception:
        res.counters['sphinx_not_reachable'] += 1
        return
    res.evals += 1
    incoming = ('<in-sig>', '<in-ret>')
    try:
        out = sphinxext.process_signature(None, 'function', dotted, obj, None, incoming[0], incoming[1])
    except RecursionError as e:
        viol('T4', 'sphinx hook raises RecursionError', '{0} under {1}'.format(dotted, fault))
        return
    except Exception as e:
        viol('T4', 'sphinx hook raises {0}'.format(type(e).__name__), '{0} under {1}: {2}'.format(dotted, fault, e))
        return
    if not (isinstance(out, tuple) and len(out) == 2):
        viol('T4', 'sphinx hook does not return a pair', '{0}: {1!r}'.format(dotted, out))
        return
    if out == incoming:
        res.counters['sphinx:passthrough'] += 1
        return
    if not (isinstance(out[0], str) and isinstance(out[1], str)):
        viol('T4', 'sphinx hook returns non-strings', '{0}: {1!r}'.format(dotted, out))
        return
    # expected strings: evaluated signature of the object as the hook documents it
    import types
    o = obj
    if isinstance(o, types.MethodType) and isinstance(parent, type):
        # reached through its class (a classmethod): the hook documents the function behind it,
        # bound to a placeholder below.  A bound method that is an attribute of a module or of an
        # instance (random.randint) is documented as what it is: without self
        o = o.__func__
    raw = None
    if isinstance(parent, type):
        for klass in parent.__mro__:
            if dotted.rpartition('.')[2] in klass.__dict__:
                raw = klass.__dict__[dotted.rpartition('.')[2]]
                break
    if isinstance(raw, staticmethod) or (not isinstance(obj, types.MethodType)
                                         and _static_like(parent, dotted.rpartition('.')[2])):
        # called as it is written: nothing is bound away
        res.counters['sphinx:staticmethod_member'] += 1
    elif isinstance(parent, type) and callable(o):
        try:
            get = type(o).__get__
        except AttributeError:
            get = None
        if get is not None:
            try:
                o = get(o, object(), type(parent))
            except Exception:
                return
    try:
        sig = specifiers.signature(o).evaluated()
    except Exception:
        viol('T4', 'sphinx hook returned strings although retrieval fails', '{0}: {1!r}'.format(dotted, out))
        return
    ret = sig.return_annotation
    if ret != sig.empty:
        exp = (str(sig.replace(return_annotation=sig.empty)), '{0!r}'.format(ret))
    else:
        exp = (str(sig), '')
    if _noaddr(out) != _noaddr(exp):
        viol('T4', 'sphinx hook strings differ from the evaluated signature',
             '{0}: got {1!r} expected {2!r}'.format(dotted, out, exp))
        return
    res.counters['sphinx:formatted'] += 1
    # independent reference (not sigtools' own evaluated()): where retrieval did not refine the
    # signature, CPython's own evaluation of the annotations must give the same strings
    import __future__
    f0 = o.__func__ if isinstance(o, types.MethodType) else o
    if not isinstance(f0, types.FunctionType):
        return      # classes: dropping their annotations is what the pinned suite expects (test_attrs_class)
    postponed = bool(f0.__code__.co_flags & __future__.annotations.compiler_flag)
    try:
        plain = inspect.signature(o)
        if str(specifiers.signature(o)) != str(plain):
            return
        # explicit string annotations in a module without PEP 563 stay strings for sigtools
        ev = inspect.signature(o, eval_str=postponed)
    except Exception:
        return
    r2 = ev.return_annotation
    if r2 is not ev.empty:
        exp2 = (str(ev.replace(return_annotation=ev.empty)), '{0!r}'.format(r2))
    else:
        exp2 = (str(ev), '')
    res.counters['sphinx:checked_against_inspect_eval_str'] += 1
    if _noaddr(out) != _noaddr(exp2):
        viol('T4', 'sphinx hook strings differ from inspect.signature(eval_str=True)',
             '{0}: got {1!r} expected {2!r}'.format(dotted, out, exp2))
        return


def _static_like(cls, attr):
    """Is the member static in effect -- however it is decorated: does looking it up on a real
    instance bind nothing away?  Decided with plain inspect.signature on the class-level and the
    instance-level object (same number of parameters), not by looking for a staticmethod object,
    so that `@kwoargs('k') @staticmethod` and `@deco @staticmethod` are recognised too."""
    if not isinstance(cls, type) or not str(getattr(cls, '__module__', '')).startswith('simworld_'):
        return False        # never instantiate classes of the corpus: only generated ones
    try:
        inst = cls()
        a = inspect.signature(getattr(cls, attr))
        b = inspect.signature(getattr(inst, attr))
    except Exception:
        return False
    pa, pb = list(a.parameters.values()), list(b.parameters.values())
    if not pa or len(pa) != len(pb) or [p.name for p in pa] != [p.name for p in pb]:
        return False
    # a first parameter that binding would have consumed, had it been a method
    return pa[0].kind in (pa[0].POSITIONAL_ONLY, pa[0].POSITIONAL_OR_KEYWORD)


def _fetch_dotted(dotted):
    """(parent, object) for a dotted name: longest importable module prefix, then attributes."""
    import sys
    parts = dotted.split('.')
    for i in range(len(parts) - 1, 0, -1):
        mod = sys.modules.get('.'.join(parts[:i]))
        if mod is None:
            try:
                __import__('.'.join(parts[:i]))
                mod = sys.modules['.'.join(parts[:i])]
            except ImportError:
                continue
        parent, obj = None, mod
        for a in parts[i:]:
            parent, obj = obj, getattr(obj, a)
        return parent, obj
    raise AttributeError(dotted)


def check_sphinx_module(res, modname, module, viol, fault):
    """T4 for the module object itself: autodoc emits autodoc-process-signature for every
    documenter, automodule included, with the bare (undotted, for a top-level module) name."""
    try:
        from sigtools import sphinxext
    except Exception:
        return
    res.evals += 1
    incoming = ('<in-sig>', '<in-ret>')
    try:
        out = sphinxext.process_signature(None, 'module', modname, module, None, incoming[0], incoming[1])
    except Exception as e:
        viol('T4', 'sphinx hook raises {0} for a module'.format(type(e).__name__),
             'process_signature(app, "module", {0!r}, <module>, ...) under {1}: {2}'.format('<top-level module name>', fault, e))
        return
    if out != incoming:
        viol('T4', 'sphinx hook invents a signature for a module', '{0!r}'.format(out))
        return
    res.counters['sphinx:module_passthrough'] += 1


def _noaddr(pair):
    import re
    return tuple(re.sub(r'0x[0-9a-fA-F]+', '0x', s) for s in pair)


# ---------------------------------------------------------------------------
# drivers

class C07Gen(object):
    property_id = PROP
    name = 'gen'

    def run(self, ch, cfg):
        install_seam()
        res = RunResult()
        spec = draw_gen_spec(ch, cfg)
        fault = FAULT_KINDS[ch.weighted(cfg.get('fault_weights', [3, 1, 1, 2, 2, 1, 1]), 'fault')]
        other_lines = []
        if fault == 'src-replaced':
            other = draw_gen_spec(ch, cfg)
            other_lines = other['source'].splitlines(True)
        tpl = spec['template']
        try:
            w = worlds.build(spec)
        except Exception as e:
            # a generated module that does not even import is not a workload
            res.counters['world_build_failed:' + type(e).__name__] += 1
            res.key(tpl, 'build-failed', nontrivial=False)
            return res
        try:
            lines = w.source.splitlines(True)
            # first line of the (first) subject's def, to bias cuts/shifts to land near it
            hint = None
            for i, l in enumerate(lines):
                if l.lstrip().startswith(('def f', 'async def f', 'f =', 'f,', '@deco', 'class ')) and i > 12:
                    hint = i
                    break
            if fault != 'none':
                w.set_source_lines(fault_lines(ch, fault, lines, other_lines, hint))
            res.event('world', tpl, sorted(spec['params'].items(), key=str), fault)
            res.counters['configured:' + fault] += 1
            reads0 = _reads.get(w.filename, 0)

            def viol(clause, symptom, detail):
                res.violations.append(Violation(PROP, clause, tpl, symptom, detail=detail,
                                                extra=dict(fault=fault, params=spec['params'])))
            any_stars = False
            outcomes = []
            # history: the order in which the subjects of one world are retrieved is drawn, and
            # some are retrieved again after the others (a result must not depend on what was
            # retrieved before it)
            labels = list(w.labels())
            order = ch.draw(3, 'retrieval-order')
            if order == 1:
                labels.reverse()
            elif order == 2:
                pool, labels = labels, []
                while pool:
                    labels.append(pool.pop(ch.draw(len(pool), 'next-subject')))
            if len(labels) > 1 and ch.chance(1, 3, 'retrieve-again'):
                labels = labels + labels[:2]
                res.counters['probe:subject_retrieved_again_after_others'] += 1
            for label in labels:
                try:
                    subj = w.subject(label)
                except Exception:
                    res.counters['subject_unavailable'] += 1
                    continue
                n0 = len(res.violations)
                outs = check_subject(res, tpl, label, subj, fault, viol)
                outcomes.append((label, [(o[0], str(o[1]) if o[0] == 'ok' else o[1].__name__) for o in outs]))
                if len(res.violations) > n0:
                    break
                dotted = w.modname + '.' + label
                if label.replace('.', '').replace('_', '').isalnum() and cfg.get('sphinx', True) \
                        and not label.startswith('nodoc_'):
                    check_sphinx(res, dotted, viol, fault)
                    if len(res.violations) > n0:
                        break
            if cfg.get('sphinx', True) and not res.violations:
                check_sphinx_module(res, w.modname, w.module, viol, fault)
            if cfg.get('sphinx', True) and not res.violations:
                # history: the module is reloaded / names are rebound between two builds of the
                # documentation -- the hook must describe what the name refers to *now*
                simple = [l for l in w.labels() if l.isidentifier() and not l.startswith('nodoc_')
                          and l in w.ns and callable(w.ns[l])]
                if len(simple) >= 2 and ch.chance(1, 2, 'rebind-and-document-again'):
                    a, b = simple[0], simple[-1]
                    w.ns[a], w.ns[b] = w.ns[b], w.ns[a]
                    res.counters['probe:documented_again_after_rebinding'] += 1
                    for l in (a, b):
                        check_sphinx(res, w.modname + '.' + l, viol, fault)
                        if res.violations:
                            break
            if cfg.get('sphinx', True) and not res.violations and 'Ann0' in w.ns and \
                    ch.chance(1, 2, 'rebind-annotation-global'):
                # history: a global that postponed annotations name is rebound (module re-executed,
                # alias changed) between two builds; the evaluated strings must follow
                w.ns['Ann0'] = str
                res.counters['probe:documented_again_after_annotation_global_rebound'] += 1
                for l in ('ann_alias', 'ann_plain'):
                    if l in w.ns:
                        check_sphinx(res, w.modname + '.' + l, viol, fault)
                        if res.violations:
                            break
            if not res.violations and ch.chance(1, 3, 'change-defaults-and-retrieve-again'):
                # history: a function's defaults are changed (f.__defaults__ = None) after it has
                # been looked at; the next retrieval must describe the function as it is now
                import types as _types
                done = 0
                for label in w.labels():
                    try:
                        subj = w.subject(label)
                    except Exception:
                        continue
                    fobj = subj.__func__ if isinstance(subj, _types.MethodType) else subj
                    if not isinstance(fobj, _types.FunctionType) or not (fobj.__defaults__ or fobj.__kwdefaults__):
                        continue
                    if not fobj.__code__.co_filename.startswith('<sim'):
                        continue
                    fobj.__defaults__ = None
                    if fobj.__kwdefaults__ and ch.chance(1, 2, 'mutate-kwdefaults-in-place'):
                        fobj.__kwdefaults__.clear()         # same dict object, other content
                    else:
                        fobj.__kwdefaults__ = None
                    check_subject(res, tpl, label, w.subject(label), fault, viol)
                    done += 1
                    if res.violations or done >= 3:
                        break
                if done:
                    res.counters['probe:retrieved_again_after_defaults_changed'] += 1
            fired = _reads.get(w.filename, 0) > reads0
            if fault != 'none' and fired:
                res.counters['fired:' + fault] += 1
            res.steps += len(outcomes)
            res.event('outcomes', outcomes)
            oc = tuple(sorted(set(o for _, outs in outcomes for _, o in outs)))
            res.key(tpl, tuple(sorted(spec['params'].items(), key=str))[:3], fault,
                    tuple(sorted(set(k for _, outs in outcomes for k, _ in outs))),
                    nontrivial=(fault == 'none' and 'sigless' in tpl) or fired)
            res.sample = dict(template=tpl, params=spec['params'], fault=fault, seam_read=fired,
                              outcomes=outcomes[:4])
        finally:
            w.teardown()
        return res

    def describe(self, choices, cfg):
        ch = Choices(replay=choices)
        spec = draw_gen_spec(ch, cfg)
        fault = FAULT_KINDS[ch.weighted(cfg.get('fault_weights', [3, 1, 1, 2, 2, 1, 1]), 'fault')]
        return dict(template=spec['template'], params=spec['params'], fault=fault,
                    source=spec['source'].splitlines()[3:], rest_of_choices=choices[ch.pos:])


# -- corpus -----------------------------------------------------------------

SKIP_MODULES = set('''antigravity this idlelib tkinter turtle turtledemo test lib2to3 __main__ ensurepip venv
    pydoc_data msilib winreg winsound _winapi msvcrt nt asyncio.windows_events asyncio.windows_utils
    distutils imp asynchat asyncore smtpd readline rlcompleter pty tty curses sre_compile sre_constants
    sre_parse nturl2path crypt spwd nis ossaudiodev audioop aifc sunau chunk cgi cgitb mailcap nntplib pipes
    sndhdr telnetlib uu xdrlib imghdr msilib'''.split())

THIRD_PARTY = ['attr', 'sigtools', 'sigtools.specifiers', 'sigtools.modifiers', 'sigtools.wrappers',
               'sigtools.signatures', 'sigtools.support', 'sigtools.sphinxext', 'packaging.version',
               'packaging.specifiers', 'pluggy', 'iniconfig', 'docutils.nodes', 'docutils.utils', 'jinja2',
               'jinja2.environment', 'markupsafe', 'pygments.lexer', 'pygments.formatter', 'sortedcontainers',
               'requests', 'requests.sessions', 'urllib3', 'idna', 'certifi', 'babel.core', 'mock', 'execnet',
               '_pytest.python', '_pytest.fixtures', '_pytest.config', 'sphinx.application',
               'sphinx.ext.autodoc', 'hypothesis.strategies']

_CORPUS = [None]


def enumerate_corpus():
    if _CORPUS[0] is not None:
        return _CORPUS[0]
    import warnings
    names = sorted(n for n in sys.stdlib_module_names if not n.startswith('_') and n not in SKIP_MODULES)
    extra_sub = ['os.path', 'email.message', 'email.utils', 'http.client', 'http.server', 'urllib.request',
                 'urllib.parse', 'xml.etree.ElementTree', 'xml.dom.minidom', 'concurrent.futures',
                 'logging.handlers', 'logging.config', 'importlib.util', 'importlib.metadata',
                 'collections.abc', 'json.decoder', 'json.encoder', 'unittest.mock', 'asyncio.tasks',
                 'asyncio.streams', 'multiprocessing.pool', 'wsgiref.simple_server', 'html.parser',
                 'ctypes.util', 'sqlite3.dbapi2', 'email.mime.text', 'encodings.idna']
    mods = names + extra_sub + THIRD_PARTY
    out = []
    seen = set()
    sink = io.StringIO()
    for m in mods:
        try:
            with warnings.catch_warnings(), contextlib.redirect_stdout(sink), contextlib.redirect_stderr(sink):
                warnings.simplefilter('ignore')
                mod = importlib.import_module(m)
        except BaseException:
            continue
        for k in sorted(vars(mod)):
            try:
                o = vars(mod)[k]
            except Exception:
                continue
            if not callable(o):
                continue
            om = getattr(o, '__module__', None)
            if om != mod.__name__:
                continue
            if id(o) in seen:
                continue
            seen.add(id(o))
            out.append((m + '.' + k, o))
            if isinstance(o, type):
                for kk in sorted(vars(o)):
                    if kk.startswith('__') and kk not in ('__init__', '__call__', '__new__'):
                        continue
                    try:
                        a = getattr(o, kk)
                    except Exception:
                        continue
                    if callable(a) and id(a) not in seen:
                        out.append((m + '.' + k + '.' + kk, a))
    _CORPUS[0] = out
    return out


def _code_file(obj):
    import types
    f = obj
    for _ in range(4):
        if isinstance(f, types.MethodType):
            f = f.__func__
        elif isinstance(f, functools.partial):
            f = f.func
        else:
            break
    code = getattr(f, '__code__', None)
    if code is None and isinstance(f, type):
        init = f.__dict__.get('__init__')
        code = getattr(init, '__code__', None)
    if code is None or not isinstance(getattr(code, 'co_filename', None), str):
        return None, None
    return code.co_filename, code.co_firstlineno


class C07Corpus(object):
    property_id = PROP
    name = 'corpus'

    def run(self, ch, cfg):
        install_seam()
        res = RunResult()
        corpus = enumerate_corpus()
        idx = ch.draw(len(corpus), 'corpus-index')
        fault = FAULT_KINDS[ch.draw(len(FAULT_KINDS), 'fault')]
        dotted, obj = corpus[idx]
        filename, first = _code_file(obj)
        res.event('corpus', dotted, fault)
        res.counters['configured:' + fault] += 1
        saved = None
        faulted = False
        if fault != 'none' and filename and os.path.exists(filename):
            lines = linecache.getlines(filename)
            other = linecache.getlines(inspect.__file__)
            new = fault_lines(ch, fault, lines, other, max(0, (first or 1) - 1))
            saved = linecache.cache.get(filename)
            if new is None:
                # a file that is gone: the loader-less, not-on-disk state is modelled by an empty cached entry
                # that checkcache cannot refresh (mtime None)
                new = []
            linecache.cache[filename] = (sum(len(l) for l in new), None, new, filename)
            faulted = True
        reads0 = _reads.get(filename, 0) if filename else 0

        def viol(clause, symptom, detail):
            res.violations.append(Violation(PROP, clause, 'corpus', symptom, detail=detail,
                                            extra=dict(fault=fault, object=dotted)))
        try:
            outs = check_subject(res, 'corpus', dotted, obj, fault, viol)
            if not res.violations and cfg.get('sphinx', True):
                check_sphinx(res, dotted, viol, fault)
        finally:
            if faulted:
                if saved is not None:
                    linecache.cache[filename] = saved
                else:
                    linecache.cache.pop(filename, None)
        fired = bool(filename) and _reads.get(filename, 0) > reads0
        if faulted and fired:
            res.counters['fired:' + fault] += 1
        res.steps += 1
        oc = tuple((o[0], str(o[1]) if o[0] == 'ok' else o[1].__name__) for o in outs)
        res.event('outcomes', oc)
        res.key('corpus', dotted.rsplit('.', 1)[0] if fault == 'none' else dotted, fault,
                tuple(k for k, _ in oc), nontrivial=fired if fault != 'none' else any(k == 'ok' for k, _ in oc))
        if fired or fault == 'none':
            res.sample = dict(object=dotted, fault=fault, seam_read=fired, outcomes=[list(x) for x in oc])
        return res

    def describe(self, choices, cfg):
        corpus = enumerate_corpus()
        ch = Choices(replay=choices)
        idx = ch.draw(len(corpus))
        fault = FAULT_KINDS[ch.draw(len(FAULT_KINDS))]
        return dict(object=corpus[idx][0], fault=fault, corpus_size=len(corpus), rest_of_choices=choices[ch.pos:])


def warmup():
    install_seam()
    enumerate_corpus()


def setup(tier):
    drivers = {'gen': C07Gen(), 'corpus': C07Corpus()}
    cfgs = {
        'gen': dict(name='gen', chunk=50, run_timeout=120, chunk_timeout=900),
        'corpus': dict(name='corpus', chunk=200, run_timeout=120, chunk_timeout=900),
    }
    return drivers, cfgs


def check(tier, budget=None, minimise=True):
    import time
    from sim import runner
    t0 = time.time()
    if budget is None:
        budget = 600.0 if tier == 'thorough' else 40.0
    drivers, cfgs = setup(tier)
    runner.warmup()
    warmup()
    corpus = enumerate_corpus()
    totals = []
    t = runner.run_batch(drivers['gen'], cfgs['gen'], tier, budget_s=budget * 0.5, label='gen',
                         stop_on_violation=False)
    totals.append(('gen', t))
    print('[C07 gen] runs={0} retrievals={1} distinct={2} violations={3} harness_errors={4} wall={5:.1f}s'.format(
        t.runs, t.evals, len(t.distinct), len(t.violations), len(t.harness_errors), t.wall_s))
    if tier == 'thorough':
        explicit = [[i, f] for i in range(len(corpus)) for f in range(len(FAULT_KINDS))]
        t = runner.run_batch(drivers['corpus'], cfgs['corpus'], tier, max_runs=len(explicit), label='corpus',
                             stop_on_violation=False, explicit=explicit)
    else:
        t = runner.run_batch(drivers['corpus'], cfgs['corpus'], tier, budget_s=budget * 0.5, label='corpus',
                             stop_on_violation=False)
    totals.append(('corpus', t))
    print('[C07 corpus] corpus={0} runs={1} retrievals={2} distinct={3} violations={4} harness_errors={5} wall={6:.1f}s'.format(
        len(corpus), t.runs, t.evals, len(t.distinct), len(t.violations), len(t.harness_errors), t.wall_s))
    code, nviol, known = runner.report(drivers, cfgs, tier, totals, do_minimise=minimise)
    wall = time.time() - t0
    evals = sum(x.evals for _, x in totals)
    distinct = sum(len(x.distinct) for _, x in totals)
    coverage = dict(
        evaluations=evals,
        distinct_nontrivial=distinct,
        rule=('gen: one run = one generated module (W-constructs: drawn header x parameters x 1-3 statements out of '
              '{0}, or one of {1} whole-module constructs, or a signature-less callable out of {2} planted in one '
              'of {3} roles; or a world template) under one drawn state of the source seam; every subject x 3 entry '
              'points (+ the Sphinx hook) is compared with the real inspect.signature in the same state. corpus: one '
              'run = one real callable out of {4} under one seam state (quick: seeded sample; thorough: all x all). '
              'evaluations = retrievals / hook calls compared; distinct = (template or corpus object, parameters, '
              'fault kind, outcome kinds); non-trivial = the faulted seam was actually read during retrieval (or, '
              'fault-free, a signature-less role / a successful corpus retrieval).'
              ).format(len(STATEMENTS), len(WHOLE), len(SIGLESS), len(ROLES), len(corpus)),
        samples=[s for _, x in totals for s in x.samples[:3]],
        exhaustive=False,
        corpus_size=len(corpus),
        corpus_sweep_complete=(tier == 'thorough' and totals[1][1].runs >= len(corpus) * len(FAULT_KINDS)),
        forall_programs_note=('the forall-programs clause of C07 is covered only as far as this workload goes: that '
                              'part is input sampling, not what the simulation decides'),
        runs_per_batch=dict((n, x.runs) for n, x in totals),
        runs_per_hour=int(sum(x.runs for _, x in totals) / max(wall, 1e-6) * 3600),
        logical_steps=dict((n, x.steps) for n, x in totals),
        logical_steps_note='no clock in this code base: simulated time = subjects examined',
        counters=dict((n, dict(sorted(x.counters.items()))) for n, x in totals),
        known_findings_reported=known,
        harness_errors=sum(len(x.harness_errors) for _, x in totals),
        real_components=['sigtools (current /repo tree)', 'inspect.findsource/getblock/getsource', 'tokenize',
                         'inspect.cleandoc', 'ast.parse', 'linecache', 'sphinx (import only) + sigtools.sphinxext hook'],
        stubs=['file contents behind linecache (generated modules; for corpus files the cached lines only)',
               'linecache.getlines is wrapped by a counting shim (seam-read detection)'],
        seeds=dict(verif_seed=runner.verif_seed(),
                   derivation='run_seed = sha256(VERIF_SEED, property, batch, tier, run index)[:8]'),
    )
    assumptions = [
        'source faults are persistent states of linecache for the file; bytecode and live objects are unaffected (as when a .py is edited or removed after import)',
        'hostile getters raise ValueError/TypeError only (what inspect.signature itself raises for signature-less objects)',
        'narrowing (T3) is evaluated on <= 64 call shapes per result, keyword collisions with positionally-filled parameters excepted',
    ]
    if evals < 1 or distinct < 2:
        print('HARNESS-ERROR insufficient reach: evaluations={0} distinct={1}'.format(evals, distinct))
        code = code or 2
    runner.write_evidence(PROP, tier, 'exploration', coverage, assumptions, wall, nviol)
    print('[C07] tier={0} exit={1} wall={2:.1f}s'.format(tier, code, wall))
    return code
