"""C16 -- retrieval and algebra do not modify what they inspect, even when they fail.

Two sub-simulations:
  C16Crash  crash-point injection at every sigtools->outside call during retrieval
  C16Hist   aliasing/immutability history machine over the signature algebra
"""

import inspect
import functools

from sim import worlds, faults, snapshot
from sim.runner import RunResult, Violation

PROP = 'C16'

CRASH_TEMPLATES = ['wraps', 'wraps_annot', 'sigattr', 'fwd', 'meth', 'mod', 'deco',
                   'asforged', 'comb', 'hostile', 'builtin', 'observed', 'instdep', 'chain', 'siblings']

# worlds whose descriptors carry one-shot first-use state (forger wrappers, translators' bound
# wrappers, decorator objects); `observed` twice: its Python-level metaclass makes the first bind
# of an implicitly transformed member a crossing
FIRST_TEMPLATES = ['meth', 'observed', 'observed', 'deco', 'mod', 'instdep', 'asforged', 'fwd']

ENTRIES = ['sigtools.signature', 'sigtools.signature(auto=False)', 'signatures.signature',
           'inspect.signature', 'specifiers.forwards']


def make_entry(name, subj, other):
    import sigtools
    from sigtools import signatures, specifiers
    if name == 'sigtools.signature':
        return lambda: sigtools.signature(subj)
    if name == 'sigtools.signature(auto=False)':
        return lambda: sigtools.signature(subj, auto=False)
    if name == 'signatures.signature':
        return lambda: signatures.signature(subj)
    if name == 'inspect.signature':
        return lambda: inspect.signature(subj)
    if name == 'specifiers.forwards':
        return lambda: specifiers.forwards(subj, other)
    raise KeyError(name)


def diff_symptom(diff, objects):
    by_name = dict((n, o) for n, o in objects)
    parts = set()
    for name, attr, change in diff:
        o = by_name.get(name)
        tn = 'type' if isinstance(o, type) else type(o).__name__
        parts.add('{0}.{1}:{2}'.format(tn, attr, change))
    return ';'.join(sorted(parts))


def _only_first_bind_init(diff, objects):
    by_name = dict((n, o) for n, o in objects)
    for name, attr, change in diff:
        o = by_name.get(name)
        if type(o).__name__ != '_ForgerWrapper' or change != 'replaced' or attr not in ('_transformed', '__wrapped__'):
            return False
    return True


def run_outcome(fn, names):
    """Like snapshot.outcome but also reports BaseException kinds."""
    try:
        r = fn()
    except Exception as e:
        return ('exc', type(e).__name__)
    except BaseException as e:
        return ('exc', type(e).__name__)
    if isinstance(r, inspect.Signature):
        return ('ok', snapshot.norm_sig(r, names))
    return ('val', type(r).__name__)


class C16Crash(object):
    property_id = PROP
    name = 'crash'

    # -- one world: baseline + faults ---------------------------------------
    def run(self, ch, cfg):
        res = RunResult()
        spec = worlds.draw_spec(ch, cfg['templates'], max_forged=cfg.get('max_forged', 1))
        w = worlds.build(spec)
        try:
            self._run_world(ch, cfg, res, spec, w)
        finally:
            w.teardown()
        return res

    def _run_world(self, ch, cfg, res, spec, w):
        tpl = spec['template']
        labels = w.labels()
        label = ch.pick(labels, 'subject')
        other_label = ch.pick(labels, 'other-subject')
        entry_name = ch.pick(ENTRIES, 'entry')
        subj = w.subject(label)
        other = w.subject(other_label)
        extra = [('subject:' + label, subj)]
        if entry_name == 'specifiers.forwards':
            extra.append(('other:' + other_label, other))
        objects = snapshot.closure(w, extra=extra)
        snap = snapshot.Snapshot(objects)
        names = snap.names()
        entry = make_entry(entry_name, subj, other)
        res.event('world', tpl, sorted(spec['params'].items(), key=str), label, entry_name)

        def viol(clause, symptom, detail, choices=None):
            res.violations.append(Violation(PROP, clause, tpl, symptom, detail=detail, choices=choices,
                                            extra=dict(subject=label, entry=entry_name)))

        # fault-free pass: numbers the crossings, gives the baseline
        with faults.Injector(record_sites=True) as inj0:
            out0 = run_outcome(entry, names)
        K = inj0.count
        sites = inj0.sites
        res.evals += 1
        res.steps += K
        res.counters['faultfree_runs'] += 1
        res.counters['crossings_total'] += K
        res.counters['crossings_excluded'] += inj0.excluded
        res.event('baseline', K, snapshot.freeze(out0))
        d = snap.diff()
        if d and _only_first_bind_init(d, objects):
            # the one-shot initialisation _ForgerWrapper.__get__ performs on its first bind: a
            # change to an object reachable through the class __dict__, made during retrieval.
            # Reported (known finding D35); it happens once, so the world is re-snapshotted and
            # everything else is still checked against the state after it.
            viol('R1-faultfree', diff_symptom(d, objects),
                 'after fault-free {0}({1}): {2}'.format(entry_name, label, d[:6]))
            res.counters['probe:first_bind_initialisation_during_retrieval'] += 1
            snap = snapshot.Snapshot(objects)
            names = snap.names()
            d = None
        if d:
            viol('R1-faultfree', diff_symptom(d, objects),
                 'after fault-free {0}({1}): {2}'.format(entry_name, label, d[:6]))
            return
        gp = snapshot.guard_probe(objects)
        if gp:
            viol('R2-faultfree', gp[0][1], repr(gp[:4]))
            return
        d = snap.diff()
        if d:       # the probe itself is a fault-free inspect.signature(o) on an as_forged object
            viol('R1-faultfree', diff_symptom(d, objects),
                 'after fault-free inspect.signature on as_forged objects: {0}'.format(d[:6]))
            return
        out1 = run_outcome(entry, names)
        if snapshot.freeze(out1) != snapshot.freeze(out0):
            viol('R3-faultfree', 'second fault-free retrieval differs',
                 'first={0} second={1}'.format(out0, out1))
            return
        d = snap.diff()
        if d:
            viol('R1-faultfree', diff_symptom(d, objects), 'after second retrieval: {0}'.format(d[:6]))
            return
        res.sample = dict(template=tpl, params=spec['params'], subject=label, entry=entry_name,
                          baseline=out0[1]['str'] if out0[0] == 'ok' else out0, crossings=K,
                          first_sites=[list(s[:2]) for s in sites[:5]])
        if K == 0:
            res.key(tpl, entry_name, label, 'no-crossing', nontrivial=False)
            return

        def inject(fault_list):
            """Execute once with the given [(k, kind index)] armed; check R1, R2, R3.
            Returns the violation clause found (or None)."""
            fmap = dict((k, faults.EXC_KINDS[ki][1]) for k, ki in fault_list)
            window = []

            def probe():
                return bool(snap.diff())
            with faults.Injector(fmap, probe=probe) as inj:
                out = run_outcome(entry, names)
            res.evals += 1
            res.steps += inj.count
            fired = inj.fired
            for k, ki in fault_list:
                kn = faults.EXC_KINDS[ki][0]
                res.counters['configured:' + kn] += 1
                if k in fired:
                    res.counters['fired:' + kn] += 1
            if inj.skipped_excluded_fault:
                res.counters['fault_at_excluded_site_skipped'] += inj.skipped_excluded_fault
            if any(inj.probe_hits):
                res.counters['probe:fault_landed_while_attribute_absent'] += 1
            if out[0] == 'exc':
                kinds = set(faults.EXC_KINDS[ki][0] for k, ki in fault_list if k in fired)
                oc = 'raised-injected' if out[1] in kinds else 'raised-other'
            elif snapshot.freeze(out) == snapshot.freeze(out0):
                oc = 'returned-baseline'
            else:
                oc = 'returned-other'
                res.counters['probe:fault_swallowed_and_result_changed'] += 1
            res.counters['outcome:' + oc] += 1
            for k, ki in fault_list:
                if k in fired and k <= len(sites):
                    res.key(tpl, entry_name, sites[k - 1][0], sites[k - 1][1], faults.EXC_KINDS[ki][0], oc,
                            nontrivial=True)
            res.event('inject', fault_list, fired, oc)
            desc = 'faults={0} fired={1} sites={2}'.format(
                [(k, faults.EXC_KINDS[ki][0]) for k, ki in fault_list], fired,
                [sites[k - 1][:2] for k, ki in fault_list if k <= len(sites)])
            d = snap.diff()
            if d:
                return ('R1', diff_symptom(d, objects), desc + ' diff=' + repr(d[:6]))
            cc = _guard_container_len()
            if cc:
                return ('R2', 'recursion guard not empty', desc)
            if cc is None or cfg.get('full_guard_probe'):
                gp = snapshot.guard_probe(objects)
                if gp:
                    return ('R2', gp[0][1], desc + ' ' + repr(gp[:4]))
            out2 = run_outcome(entry, names)
            res.evals += 1
            if snapshot.freeze(out2) != snapshot.freeze(out0):
                return ('R3', 'fault-free retrieval after the fault differs from baseline',
                        desc + ' baseline={0} now={1}'.format(_short(out0), _short(out2)))
            d = snap.diff()
            if d:
                return ('R1', diff_symptom(d, objects), desc + ' (after recovery retrieval) diff=' + repr(d[:6]))
            return None

        nkinds = len(faults.EXC_KINDS)
        prefix = ch.fork()

        def encode(fault_list):
            enc = list(prefix)
            enc.append(len(fault_list))     # draw(4)
            for k, ki in fault_list:
                if K > 1:
                    enc.append(k - 1)
                enc.append(ki)
            return enc

        if cfg.get('enumerate') and not ch.replaying:
            budget = cfg.get('max_injections_per_world', 4000)
            total = K * nkinds
            if total <= budget:
                plan = [(k, ki) for k in range(1, K + 1) for ki in range(nkinds)]
                res.counters['worlds_enumerated_exhaustively'] += 1
            else:
                plan = []
                seen = set()
                while len(plan) < budget:
                    k, ki = ch.draw(K, 'k') + 1, ch.draw(nkinds, 'kind')
                    if (k, ki) in seen:
                        continue
                    seen.add((k, ki))
                    plan.append((k, ki))
                res.counters['worlds_sampled_not_exhaustive'] += 1
            import time as _time
            t_world = _time.time()
            for k, ki in plan:
                now = _time.time()
                if (cfg.get('_deadline') and now > cfg['_deadline'] + 2) or \
                        now - t_world > cfg.get('world_time_cap', 1e9):
                    res.counters['worlds_truncated_by_time'] += 1
                    res.counters['worlds_enumerated_exhaustively'] -= 1 if total <= budget else 0
                    break
                if sites[k - 1][2]:
                    res.counters['excluded_site_not_injected'] += 1
                    continue
                r = inject([(k, ki)])
                if r is not None:
                    viol(r[0], r[1], r[2], choices=encode([(k, ki)]))
                    return
            # the guard, behaviourally, once per world
            gp = snapshot.guard_probe(objects)
            if gp:
                viol('R2', gp[0][1], 'after enumeration: ' + repr(gp[:4]))
            return

        nf = ch.draw(4, 'n-faults')
        fl = []
        for _ in range(nf):
            fl.append((ch.draw(K, 'k') + 1, ch.draw(nkinds, 'kind')))
        if not fl:
            return
        r = inject(fl)
        if r is not None:
            viol(r[0], r[1], r[2])

    def describe(self, choices, cfg):
        from sim.choices import Choices
        ch = Choices(replay=choices)
        spec = worlds.draw_spec(ch, cfg['templates'], max_forged=cfg.get('max_forged', 1))
        labels = sorted(spec['subjects'])
        label = ch.pick(labels)
        other = ch.pick(labels)
        entry = ch.pick(ENTRIES)
        rest = choices[ch.pos:]
        return dict(template=spec['template'], params=spec['params'], source=spec['source'].splitlines(),
                    subject=spec['subjects'][label], other_subject=spec['subjects'][other], entry=entry,
                    fault_choices=rest,
                    fault_choices_meaning='[n faults, then per fault: crossing number-1 (omitted when K==1), '
                                          'index into ' + repr([k for k, _ in faults.EXC_KINDS]) + ']')


class C16First(object):
    """Crash points of the FIRST use.  sigtools keeps a little one-shot state on descriptors
    stored in classes (a forger wrapper's first bind, a translator's first bound wrapper): the
    enumeration above runs a fault-free pass first, after which that state is initialised for
    good, so a fault can never land inside the initialisation.  Here every execution -- the
    baseline and each faulted one -- gets a world of its own in which nothing has been bound
    or retrieved yet, and the subject expression is evaluated *inside* the execution (binding
    the member is part of it).  After the fault: R1 (minus the known first-bind flip D35),
    R2, and R3: a fault-free first-style retrieval on the same world now gives what a first
    retrieval gives on a fresh world."""
    property_id = PROP
    name = 'first'

    def run(self, ch, cfg):
        res = RunResult()
        spec = worlds.draw_spec(ch, cfg['templates'], max_forged=cfg.get('max_forged', 1))
        tpl = spec['template']
        labels = sorted(spec['subjects'])
        label = ch.pick(labels, 'subject')
        entry_name = ch.pick(ENTRIES[:4], 'entry')
        res.event('world', tpl, sorted(spec['params'].items(), key=str), label, entry_name)
        cold = ch.chance(1, 8, 'process-first-use')
        if cold:
            res.counters['runs_starting_from_import_state'] += 1

        def viol(clause, symptom, detail):
            res.violations.append(Violation(PROP, clause, tpl, symptom, detail=detail,
                                            extra=dict(subject=label, entry=entry_name)))

        def execute(fault_map):
            """Fresh world; returns (world, objects, snap, names, outcome, injector)."""
            if cold:
                # first retrieval of the process as well: module-level one-time set-up is inside
                from sim import sutstate
                sutstate.restore_import()
            w = worlds.build(spec)
            objects = snapshot.closure(w)
            snap = snapshot.Snapshot(objects)
            names = snap.names()

            def entry():
                return make_entry(entry_name, w.subject(label), None)()
            with faults.Injector(fault_map, record_sites=not fault_map) as inj:
                out = run_outcome(entry, names)
            return w, objects, snap, names, out, inj, entry

        w, objects, snap, names, out0, inj0, entry = execute({})
        try:
            K = inj0.count
            sites = inj0.sites
            res.evals += 1
            res.steps += K
            d = [x for x in snap.diff() if not _only_first_bind_init([x], objects)]
            if d:
                viol('R1-faultfree', diff_symptom(d, objects), 'first use of {0}({1}): {2}'.format(entry_name, label, d[:6]))
                return res
            # a second fault-free use on the same world must give the first answer again
            out1 = run_outcome(entry, names)
            if snapshot.freeze(out1) != snapshot.freeze(out0):
                viol('R3-faultfree', 'second use differs from first use',
                     'first={0} second={1}'.format(_short(out0), _short(out1)))
                return res
        finally:
            w.teardown()
        if K == 0:
            res.key(tpl, entry_name, label, 'no-crossing', nontrivial=False)
            return res
        nkinds = len(faults.EXC_KINDS)
        n = min(cfg.get('first_use_samples', 10), K * nkinds)
        seen = set()
        # stratified by distinct crossing site (caller line -> callee), then an occurrence of it:
        # a site crossed once (the metaclass call of a first bind) is as likely as one crossed
        # two hundred times
        by_site = {}
        for i, st in enumerate(sites):
            by_site.setdefault(st[:2], []).append(i + 1)
        site_keys = sorted(by_site)
        for _ in range(n):
            occ = by_site[site_keys[ch.draw(len(site_keys), 'site')]]
            k, ki = occ[ch.draw(len(occ), 'occurrence')], ch.draw(nkinds, 'kind')
            if (k, ki) in seen or (k <= len(sites) and sites[k - 1][2]):
                continue
            seen.add((k, ki))
            w, objects, snap, names, out, inj, entry = execute({k: faults.EXC_KINDS[ki][1]})
            try:
                res.evals += 1
                res.steps += inj.count
                kn = faults.EXC_KINDS[ki][0]
                res.counters['configured:' + kn] += 1
                if not inj.fired:
                    continue
                res.counters['fired:' + kn] += 1
                site = sites[k - 1][:2] if k <= len(sites) else ('?', '?')
                res.key(tpl, entry_name, site[0], site[1], kn, nontrivial=True)
                desc = 'first use interrupted: fault {0} at crossing {1} {2}'.format(kn, k, site)
                d = [x for x in snap.diff() if not _only_first_bind_init([x], objects)]
                if d:
                    viol('R1', diff_symptom(d, objects), desc + ' diff=' + repr(d[:6]))
                    return res
                if _guard_container_len():
                    viol('R2', 'recursion guard not empty', desc)
                    return res
                gp = snapshot.guard_probe(objects)
                if gp:
                    viol('R2', gp[0][1], desc + ' ' + repr(gp[:4]))
                    return res
                out2 = run_outcome(entry, names)
                res.evals += 1
                if snapshot.freeze(out2) != snapshot.freeze(out0):
                    viol('R3', 'use after an interrupted first use differs from a first use',
                         desc + ' first-use={0} now={1}'.format(_short(out0), _short(out2)))
                    return res
            finally:
                w.teardown()
        res.sample = dict(template=tpl, params=spec['params'], subject=label, entry=entry_name, crossings=K,
                          injections=len(seen))
        return res

    def describe(self, choices, cfg):
        from sim.runner import run_one
        res = run_one(self, cfg, replay=choices)
        return dict(sample=res.sample, violations=[v.to_json() for v in res.violations])


def _short(out):
    if out[0] == 'ok':
        return out[1]['str']
    return out


def _guard_container_len():
    """len of as_forged's guard container if the tree still has one, else None."""
    from sigtools import specifiers
    cc = getattr(getattr(specifiers, 'as_forged', None), 'currently_computing', None)
    if cc is None:
        return None
    try:
        return len(cc)
    except TypeError:
        return None


# ---------------------------------------------------------------------------
# algebra history machine

SIG_TEXTS = [
    'a, b=1, *args, **kwargs',
    'x, y, *, z',
    'p, /, q, *, k=2',
    '*args, **kwargs',
    'a, *args, z=1',
    'a, **kw',
    'x, y=1',
    'a:int, *args:str, k:float=1.5, **kwargs',
    '',
    'x, *rest, k=3',
]


from sim.snapshot import sig_state as _sig_state, sig_changed as _sig_changed, _same   # noqa: E402


def _shared(result_sources, operand):
    """Which provenance container of operand does result_sources share, if any."""
    osrc = operand.sources
    if result_sources is osrc:
        return 'sources map'
    olists = set(id(v) for k, v in osrc.items() if k != '+depths')
    for k, v in result_sources.items():
        if k == '+depths':
            if v is osrc.get('+depths') and v is not None:
                return '+depths dict'
        elif id(v) in olists:
            return 'sources list'
    return None


def _map_state(src):
    """Identity + content view of a provenance map handed around outside a signature."""
    return (src, dict((k, (v, list(v) if isinstance(v, list) else dict(v))) for k, v in src.items()))


def _map_changed(st):
    src, before = st
    if set(src) != set(before):
        return 'keys changed'
    for k, (v, content) in before.items():
        if src[k] is not v:
            return 'entry {0!r} replaced'.format(k)
        now = list(v) if isinstance(v, list) else dict(v)
        if len(now) != len(content) or any(a is not b for a, b in zip(now, content)) and isinstance(v, list):
            return 'entry {0!r} modified'.format(k)
        if isinstance(v, dict) and now != content:
            return 'entry {0!r} modified'.format(k)
    return None


class _SrcHolder(object):
    """Lets _shared() look at a bare provenance map like at a signature's."""
    def __init__(self, sources):
        self.sources = sources


class _Marker(object):
    def __repr__(self):
        return '<hostile-marker>'


class C16Hist(object):
    property_id = PROP
    name = 'hist'

    def run(self, ch, cfg):
        from sigtools import support, signatures
        res = RunResult()
        pool = []
        states = []
        trace = []
        sp_pool = []        # SortedParameters (with sources) kept by the caller and used again
        sp_states = []

        def add(sig, origin):
            pool.append(sig)
            states.append(_sig_state(sig))
            trace.append(origin)

        n0 = 2 + ch.draw(3, 'pool0')
        for _ in range(n0):
            if ch.chance(1, 3, 'retrieved-seed'):
                # a signature as retrieval really produces it: several sources, depths > 0
                import sigtools
                from props import _c16_funcs
                i = ch.draw(len(_c16_funcs.FUNCS), 'seed-func')
                add(sigtools.signature(_c16_funcs.FUNCS[i]), 'signature(FUNCS[{0}])'.format(i))
                res.counters['pool_seeded_with_retrieved_signature'] += 1
                continue
            t = ch.pick(SIG_TEXTS, 'sig-text')
            add(support.s(t), 's({0!r})'.format(t))
        res.event('pool0', trace)

        def check_pool(step, what):
            for j, st in enumerate(sp_states):
                c = _map_changed(st)
                if c:
                    res.violations.append(Violation(
                        PROP, 'I1', 'algebra', what.split('(')[0] + ': provenance map passed as sources= argument modified',
                        detail='step {0} {1}: SortedParameters #{2}.sources {3}'.format(step, what, j, c)))
                    return False
            for i, (sig, st) in enumerate(zip(pool, states)):
                c = _sig_changed(sig, st)
                if c:
                    res.violations.append(Violation(
                        PROP, 'I1', 'algebra', what.split('(')[0] + ': ' + _generic(c),
                        detail='step {0} {1}: pool[{2}] ({3}) {4}'.format(step, what, i, trace[i], c)))
                    return False
            return True

        report_param_level = ch.chance(1, 16, 'check-parameter-level-aliasing')
        param_level_reported = [False]
        nsteps = 1 + ch.draw(cfg.get('hist_len', 6), 'n-steps')
        for step in range(nsteps):
            opname = ch.pick(['merge', 'embed', 'mask', 'forwards', 'sort_params', 'apply_params',
                              'apply_params+sources'], 'op')
            pick = lambda: ch.draw(len(pool), 'operand')     # noqa
            used_sp = None
            if opname == 'merge':
                idx = [pick() for _ in range(1 + ch.draw(3, 'n-operands'))]
                fn = lambda: signatures.merge(*[pool[i] for i in idx])   # noqa
                what = 'merge({0})'.format(idx)
            elif opname == 'embed':
                idx = [pick() for _ in range(2 + ch.draw(2, 'n-operands'))]
                ua, uk = ch.draw(2, 'use_varargs'), ch.draw(2, 'use_varkwargs')
                fn = lambda: signatures.embed(*[pool[i] for i in idx],     # noqa
                                              use_varargs=bool(ua), use_varkwargs=bool(uk))
                what = 'embed({0}, use_varargs={1}, use_varkwargs={2})'.format(idx, ua, uk)
            elif opname == 'mask':
                idx = [pick()]
                sig = pool[idx[0]]
                n = ch.draw(len(sig.parameters) + 3, 'mask-n')
                cands = list(sig.parameters) + ['foreign']
                nm = [ch.pick(cands, 'mask-name') for _ in range(ch.draw(3, 'n-names'))]
                flags = ch.draw(16, 'hide-flags')
                kw = dict(hide_args=bool(flags & 1), hide_kwargs=bool(flags & 2),
                          hide_varargs=bool(flags & 4), hide_varkwargs=bool(flags & 8))
                fn = lambda: signatures.mask(sig, n, *nm, **kw)    # noqa
                what = 'mask({0}, {1}, {2}, flags={3})'.format(idx, n, nm, flags)
            elif opname == 'forwards':
                idx = [pick(), pick()]
                inner = pool[idx[1]]
                n = ch.draw(len(inner.parameters) + 2, 'fwd-n')
                cands = list(inner.parameters) + ['foreign']
                nm = [ch.pick(cands, 'fwd-name') for _ in range(ch.draw(2, 'n-names'))]
                flags = ch.draw(32, 'fwd-flags')
                kw = dict(hide_args=bool(flags & 1), hide_kwargs=bool(flags & 2),
                          use_varargs=not (flags & 4), use_varkwargs=not (flags & 8),
                          partial=bool(flags & 16))
                fn = lambda: signatures.forwards(pool[idx[0]], inner, n, *nm, **kw)   # noqa
                what = 'forwards({0}, {1}, {2}, flags={3})'.format(idx, n, nm, flags)
            elif opname == 'sort_params':
                idx = [pick()]
                srcs = bool(ch.draw(2, 'sources-flag'))
                fn = lambda: signatures.sort_params(pool[idx[0]], sources=srcs)  # noqa
                what = 'sort_params({0}, sources={1})'.format(idx, srcs)
            elif opname == 'apply_params':
                idx = [pick()]
                fn = lambda: signatures.apply_params(pool[idx[0]], *signatures.sort_params(pool[idx[0]]))  # noqa
                what = 'apply_params({0}, *sort_params(..))'.format(idx)
            elif sp_pool and ch.chance(1, 2, 'reuse-sorted-parameters'):
                # the caller kept a SortedParameters (with its sources map) and applies it again
                idx = [pick()]
                j = ch.draw(len(sp_pool), 'kept-sorted-parameters')
                fn = lambda: signatures.apply_params(pool[idx[0]], *sp_pool[j])       # noqa
                what = 'apply_params({0}, *kept#{1})'.format(idx[0], j)
                used_sp = j
            else:
                idx = [pick(), pick()]
                fn = lambda: signatures.apply_params(                                   # noqa
                    pool[idx[0]], *signatures.sort_params(pool[idx[1]], sources=True))
                what = 'apply_params({0}, *sort_params({1}, sources=True))'.format(idx[0], idx[1])

            failing = ch.chance(1, 4, 'failing-op')
            res.evals += 1
            res.steps += 1
            if failing:
                with faults.Injector() as inj0:
                    try:
                        fn()
                    except ValueError:
                        pass
                K = inj0.count
                if not check_pool(step, what + ' [count pass]'):
                    return res
                if K:
                    k = ch.draw(K, 'k') + 1
                    ki = ch.draw(len(faults.EXC_KINDS), 'kind')
                    with faults.Injector({k: faults.EXC_KINDS[ki][1]}) as inj:
                        try:
                            fn()
                            oc = 'returned'
                        except BaseException as e:
                            oc = 'raised:' + type(e).__name__
                    if inj.fired:
                        res.counters['fired:' + faults.EXC_KINDS[ki][0]] += 1
                    res.counters['configured:' + faults.EXC_KINDS[ki][0]] += 1
                    res.key('failing', opname, faults.EXC_KINDS[ki][0], oc.split(':')[0], nontrivial=bool(inj.fired))
                    res.event('failing', what, k, ki, oc)
                    if not check_pool(step, what + ' [fault {0} at crossing {1}]'.format(
                            faults.EXC_KINDS[ki][0], k)):
                        return res
                continue
            try:
                r = fn()
                oc = 'ok'
            except ValueError as e:
                r = None
                oc = 'ValueError'
            res.event('op', what, oc, str(r) if isinstance(r, inspect.Signature) else None)
            res.counters['op:' + opname] += 1
            res.counters['op-outcome:' + oc] += 1
            if not check_pool(step, what):
                return res
            if r is None:
                res.key(opname, 'ValueError', nontrivial=False)
                continue
            rsrc = None
            if isinstance(r, inspect.Signature):
                rsrc = r.sources
            elif opname == 'sort_params' and hasattr(r, 'sources'):
                rsrc = r.sources
            if rsrc is not None:
                for i in idx:
                    sh = _shared(rsrc, pool[i])
                    if sh:
                        res.violations.append(Violation(
                            PROP, 'I2', 'algebra', '{0}: result shares {1} with an input'.format(opname, sh),
                            detail='step {0} {1}: result shares its {2} with pool[{3}] ({4})'.format(
                                step, what, sh, i, trace[i])))
                        return res
            if opname == 'sort_params' and hasattr(r, 'sources') and len(sp_pool) < 3:
                sp_pool.append(r)
                sp_states.append(_map_state(r.sources))
            if used_sp is not None and rsrc is not None:
                sh = _shared(rsrc, _SrcHolder(sp_pool[used_sp].sources))
                if sh:
                    res.violations.append(Violation(
                        PROP, 'I2', 'algebra', 'apply_params: result shares {0} with its sources= argument'.format(sh),
                        detail='step {0} {1}: result shares its {2} with the SortedParameters it was given'.format(
                            step, what, sh)))
                    return res
            if report_param_level and isinstance(r, inspect.Signature) and not param_level_reported[0]:
                # parameter level: a result that re-uses an input's parameter object (or a copy
                # made with replace()) carries that parameter's .sources list, which is the very
                # list in the input's provenance map (known finding D42; sampled: 1 run in 16)
                lists = {}
                for i in idx:
                    for k2, v in pool[i].sources.items():
                        if k2 != '+depths':
                            lists[id(v)] = (i, k2)
                for pr in r.parameters.values():
                    hit = lists.get(id(getattr(pr, 'sources', None)))
                    if hit is not None:
                        param_level_reported[0] = True
                        res.violations.append(Violation(
                            PROP, 'I2p', 'algebra', 'a result parameter carries the provenance list of an input',
                            detail='step {0} {1}: result.parameters[{2!r}].sources is pool[{3}].sources[{4!r}]'.format(
                                step, what, pr.name, hit[0], hit[1])))
                        break
            consumed_earlier = any(i >= n0 for i in idx)
            res.key(opname, tuple(sorted(set(str(pool[i]) for i in idx))), nontrivial=consumed_earlier or len(idx) > 1)
            if isinstance(r, inspect.Signature):
                if ch.chance(1, 3, 'hostile-consumer'):
                    m = _Marker()
                    for k2, v in list(r.sources.items()):
                        if k2 == '+depths':
                            v[m] = 99
                        else:
                            v.append(m)
                    r.sources['<scribble>'] = [m]
                    r.sources.setdefault('+depths', {})[m] = 98
                    res.counters['hostile_consumer_scribbles'] += 1
                    res.event('scribble')
                    if not check_pool(step, what + ' [then scribbling on the result]'):
                        return res
                add(r, what)
        res.sample = dict(pool0=trace[:n0], ops=trace[n0:], final_pool=[str(s) for s in pool][:8])
        return res

    def describe(self, choices, cfg):
        from sim.runner import run_one
        res = run_one(self, cfg, replay=choices)
        return dict(sample=res.sample, violations=[v.to_json() for v in res.violations])


def _generic(c):
    """Strip parameter names out of a change description (class stability under shrinking)."""
    import re
    return re.sub(r'parameter \S+', 'parameter', c)


# ---------------------------------------------------------------------------
# tiers, batch plan, evidence

def setup(tier):
    thorough = tier == 'thorough'
    drivers = {'crash-enum': C16Crash(), 'crash-multi': C16Crash(), 'crash-first': C16First(), 'hist': C16Hist()}
    cfgs = {
        'crash-enum': dict(name='crash-enum', templates=CRASH_TEMPLATES, enumerate=True,
                           max_forged=2 if thorough else 1,
                           max_injections_per_world=12000 if thorough else 2500,
                           world_time_cap=120 if thorough else 8,
                           chunk=1, run_timeout=900, chunk_timeout=1800),
        'crash-multi': dict(name='crash-multi', templates=CRASH_TEMPLATES, enumerate=False,
                            max_forged=2 if thorough else 1, full_guard_probe=True,
                            chunk=25, run_timeout=300, chunk_timeout=900),
        'crash-first': dict(name='crash-first', templates=FIRST_TEMPLATES, max_forged=2 if thorough else 1,
                            first_use_samples=40 if thorough else 16, chunk=10, run_timeout=300, chunk_timeout=900),
        'hist': dict(name='hist', hist_len=12 if thorough else 6, chunk=100, run_timeout=120,
                     chunk_timeout=600),
    }
    return drivers, cfgs


PLAN = [('crash-enum', 0.5), ('crash-multi', 0.15), ('crash-first', 0.15), ('hist', 0.2)]


def check(tier, budget=None, minimise=True):
    import time
    from sim import runner
    t0 = time.time()
    if budget is None:
        budget = 900.0 if tier == 'thorough' else 40.0
    drivers, cfgs = setup(tier)
    runner.warmup()
    totals_list = []
    for name, share in PLAN:
        t = runner.run_batch(drivers[name], cfgs[name], tier, budget_s=budget * share, label=name)
        totals_list.append((name, t))
        print('[C16 {0}] runs={1} executions={2} crossings={3} distinct={4} violations={5} harness_errors={6} wall={7:.1f}s'.format(
            name, t.runs, t.evals, t.steps, len(t.distinct), len(t.violations), len(t.harness_errors), t.wall_s))
    code, nviol, known = runner.report(drivers, cfgs, tier, totals_list, do_minimise=minimise)
    wall = time.time() - t0
    by = dict(totals_list)
    counters = {}
    for name, t in totals_list:
        counters[name] = dict(sorted(t.counters.items()))
    evals = sum(t.evals for _, t in totals_list)
    distinct = sum(len(t.distinct) for _, t in totals_list)
    enum = by['crash-enum']
    coverage = dict(
        evaluations=evals,
        distinct_nontrivial=distinct,
        rule=('crash-enum/crash-multi: a drawn world (template x parameters) x subject x entry point, then one '
              'execution per injected fault list; every single-fault crash point (crossing k x 9 exception kinds) '
              'of the world is enumerated unless K*9 exceeds the per-world budget (then a seeded sample, counted '
              'under worlds_sampled_not_exhaustive). distinct = distinct (template, entry point, crossing site '
              'caller:line->callee, exception kind, outcome class); non-trivial = the fault actually fired. '
              'hist: drawn histories of algebra operations over a growing pool; distinct = (operation, operand '
              'signature texts); non-trivial = consumes an earlier result or has several operands; failing '
              'operations count when the fault fired.'),
        samples=[s for _, t in totals_list for s in t.samples[:3]],
        exhaustive=False,
        single_fault_enumeration=dict(
            worlds=enum.runs,
            worlds_enumerated_exhaustively=enum.counters.get('worlds_enumerated_exhaustively', 0),
            worlds_sampled_not_exhaustive=enum.counters.get('worlds_sampled_not_exhaustive', 0),
            note='exhaustive only per drawn world over its single-fault crash points, never over worlds'),
        runs_per_batch=dict((n, t.runs) for n, t in totals_list),
        runs_per_hour=int(sum(t.runs for _, t in totals_list) / max(wall, 1e-6) * 3600),
        executions_per_hour=int(evals / max(wall, 1e-6) * 3600),
        logical_steps=dict((n, t.steps) for n, t in totals_list),
        logical_steps_note='no clock in this code base: simulated time = crossings executed (crash) / operations (hist)',
        counters=counters,
        capped_runs=sum(t.capped for _, t in totals_list),
        known_findings_reported=known,
        harness_errors=sum(len(t.harness_errors) for _, t in totals_list),
        real_components=['sigtools (current /repo tree)', 'inspect', 'functools', 'linecache', 'tokenize', 'ast',
                         'warnings', 'attrs'],
        stubs=['the failing callee (exception raised at its entry by sys.monitoring PY_START)',
               'file contents behind linecache (generated in-memory modules)'],
        seeds=dict(verif_seed=runner.verif_seed(),
                   derivation='run_seed = sha256(VERIF_SEED, property, batch, tier, run index)[:8]'),
    )
    assumptions = [
        'faults are raised at the entry of the outside Python callee; a callee that half-completes a side effect on sigtools-visible state is not modelled',
        'C-level callees are fault sites only through Python code they dispatch to',
        'crossings made from finally bodies / __exit__ of sigtools are not fault sites',
        'per-parameter .sources lists (shared with the input through shared parameter objects by design) are not part of I2',
    ]
    if evals < 1 or distinct < 2:
        print('HARNESS-ERROR insufficient reach: evaluations={0} distinct={1}'.format(evals, distinct))
        code = code or 2
    runner.write_evidence(PROP, tier, 'fault_enumeration', coverage, assumptions, wall, nviol)
    print('[C16] tier={0} exit={1} wall={2:.1f}s'.format(tier, code, wall))
    return code
