"""Real callables whose retrieved signatures seed the C16 algebra pool (provenance with
several sources and depths > 0, annotations, defaults)."""
import functools
from sigtools import modifiers, specifiers


def inner(x: int, y: str = 's', *, z: float = 1.5) -> bool:
    return True


def outer(a, *args, **kwargs):
    return inner(*args, **kwargs)


def outer2(b, c=2, *rest, k=None, **kw):
    return outer(b, *rest, **kw)


@modifiers.kwoargs('c')
@modifiers.annotate('R', a='A')
def modified(a, b=0, c=1, *args, **kwargs):
    return inner(*args, **kwargs)


@specifiers.forwards_to_function(inner, 1)
def declared(q, *args, **kwargs):
    return inner(q, *args, **kwargs)


def deco(f):
    @functools.wraps(f)
    def w(first, *args, **kwargs):
        return f(*args, **kwargs)
    return w


wrapped = deco(deco(inner))

FUNCS = [outer, outer2, modified, declared, wrapped, functools.partial(outer2, 1, k=3)]
