"""C18 -- decorator application order and repeated use do not change the result;
nothing is kept alive.

One world (a class hierarchy mixing modifiers-, forger-, wrappers-decorated
members and up to three instances) is driven through a drawn *history* of
operations; the garbage collector is a simulated component (automatic GC off,
collections happen only where the history says so).  The oracle is a
history-free twin: the same decoration state on a freshly compiled world,
first-time retrieval / call on a fresh instance.
"""

import gc
import inspect
import weakref
import itertools

from sim import worlds, snapshot
from sim.runner import RunResult, Violation, HarnessError

PROP = 'C18'

SOURCE = worlds.HEADER + '''
@wrappers.decorator
def d1(func, *args, p1=1, **kwargs):
    return func(*args, **kwargs)

@wrappers.wrapper_decorator
def d2(func, *args, p2=2, **kwargs):
    return func(*args, **kwargs)

def sink(*args, **kwargs):
    return (args, tuple(sorted(kwargs.items())))

# the bodies forward their stars, so that automatic discovery (and, under a modifier, the
# translator's autoforwards hint) takes part in every retrieval
def f(a, b=0, c=1, *args, **kwargs):
    return ('f', a, b, c, sink(*args, **kwargs))

def f2(c, a=5, b=2, *args, **kwargs):
    return ('f2', c, a, b, sink(*args, **kwargs))

def ha(u, v=1):
    return ('ha', u, v)

def hb(*, w=0):
    return ('hb', w)

class Base(object):
    #EQ#
    def t(self, p, q=3):
        return ('t', self, p, q)
    def plain(self, a, b=0, c=1):
        return ('plain', self, a, b, c)

class K(Base):
    __signature__ = specifiers.as_forged
    @specifiers.forwards_to_method('t')
    def __call__(self, a, *args, **kwargs):
        return ('call', self, a, self.t(*args, **kwargs))
#MDECO#    def m(self, a, b=0, c=1, *args, **kwargs):
        return ('m', self, a, b, c, sink(*args, **kwargs))
    @specifiers.forwards_to_method('t')
    def fm(self, a, *args, **kwargs):
        return ('fm', self, a, self.t(*args, **kwargs))
    @specifiers.forwards_to_method('m')
    def fmm(self, a2, *args, **kwargs):
        return ('fmm', self, a2, self.m(*args, **kwargs))
    @d1
    def dm(self, x, y=1):
        return ('dm', self, x, y)
    @d2
    def wm(self, x, y=1):
        return ('wm', self, x, y)
    @specifiers.forwards_to_method('t', emulate=True)
    def fe(self, a, *args, **kwargs):
        return ('fe', self, a, self.t(*args, **kwargs))

    @d1
    @classmethod
    def dcm(cls, x, y=1):
        return ('dcm', cls, x, y)
    @d2
    @classmethod
    def wcm(cls, x, y=1):
        return ('wcm', cls, x, y)
    @specifiers.forwards_to_method('h')
    def fh(self, a, *args, **kwargs):
        return ('fh', self, a, self.h(*args, **kwargs))
    @specifiers.forwards_to_method('h', emulate=True)
    def feh(self, a, *args, **kwargs):
        return ('feh', self, a, self.h(*args, **kwargs))

class Sub(K):
    pass

class KH(K):
    @specifiers.forwards_to_method('h')
    def __call__(self, a, *args, **kwargs):
        return ('callh', self, a, self.h(*args, **kwargs))
'''

EQ_CODE = ('def __eq__(self, other):\n        return type(self) is type(other)\n'
           '    def __hash__(self):\n        return 7')

ATTRS = ['m', 'fm', 'fmm', 'dm', 'wm', 'fe', 'plain', '<self>', 'fh', 'feh', 'dcm', 'wcm']
ATTR_W = [5, 2, 2, 1, 1, 1, 1, 2, 2, 2, 2, 2]
OWNER_BOUND = ('dcm', 'wcm')      # classmethods under a wrapper: what they are bound to is the owner
INST_CLASSES = ['K', 'K', 'Sub', 'KH']
NINST = len(INST_CLASSES)
H_VALUES = ['ha', 'hb']      # what `attach` stores on an instance as attribute h

# decoration applied to K.m in the class body itself (so that __set_name__ and class creation
# see the decorated member), innermost first; later re-decoration goes on top by assignment
INIT_STACKS = [
    (), (), ('kwoargs(c)',), ('autokwoargs',), ('annotate(a)',), ('kwoargs(start=b)',),
    ('annotate(R,c)', 'kwoargs(b)'), ('kwoargs(c)', 'annotate(a)'),
]

# modifier atoms (disjoint annotation targets so that the *set* determines the result)
ATOMS = [
    ('kwoargs(c)', 'modifiers.kwoargs("c")'),
    ('kwoargs(b)', 'modifiers.kwoargs("b")'),
    ('autokwoargs', 'modifiers.autokwoargs'),
    ('annotate(a)', 'modifiers.annotate(a="A")'),
    ('annotate(R,c)', 'modifiers.annotate("R", c="C")'),
    ('kwoargs(start=b)', 'modifiers.kwoargs(start="b")'),
    ('autokwoargs(exc b)', 'modifiers.autokwoargs(exceptions=("b",))'),
    ('posoargs(a)', 'modifiers.posoargs("a")'),
    ('posoargs(end=a)', 'modifiers.posoargs(end="a")'),
    ('posoargs(end=c)', 'modifiers.posoargs(end="c")'),
    ('kwoargs(a)', 'modifiers.kwoargs("a")'),
    ('kwoargs(start=c)', 'modifiers.kwoargs(start="c")'),
    ('annotate(R)', 'modifiers.annotate("R")'),     # return annotation only (same value as annotate(R,c))
]
ATOM_EXPR = dict(ATOMS)
ATOM_NAMES = [a for a, _ in ATOMS]

CALL_SHAPES = [
    ((1,), {}),
    ((1, 2), {}),
    ((1, 2, 3), {}),
    ((1,), {'b': 2}),
    ((1,), {'c': 3}),
    ((), {'a': 1}),
    ((1, 2, 3, 4), {}),
    ((1,), {'x': 5}),
    ((), {}),
    ((1,), {'q': 7}),
]

LEAK_VIA_CACHE = 'instance kept alive only by bound-wrapper cache entries (WeakKeyDictionary insts of a translator)'

HOWS = ['sigtools.signature', 'inspect.signature', 'sigtools.signature(auto=False)']


def _retrieve(how, obj):
    import sigtools
    if how == 'sigtools.signature':
        return sigtools.signature(obj)
    if how == 'inspect.signature':
        return inspect.signature(obj)
    return sigtools.signature(obj, auto=False)


class Env(object):
    """A world plus instances; used for both the history and the twins."""

    def __init__(self, eq_mode=0, init_m=(), role='twin', share_decos=False):
        self.eq_mode = eq_mode
        self.init_m = tuple(init_m)
        mdeco = ''.join('    @{0}\n'.format(ATOM_EXPR[a]) for a in reversed(self.init_m))
        src = SOURCE.replace('#EQ#', EQ_CODE if eq_mode else 'pass').replace('#MDECO#', mdeco)
        spec = dict(template='c18', params={}, source=src, subjects={})
        # the world a history runs in never shares code objects with the twins it is compared to
        self.w = worlds.build(spec, shared_code_key='c18-{0}-eq{1}-{2}'.format(
            role, eq_mode, INIT_STACKS.index(self.init_m) if self.init_m in INIT_STACKS else repr(self.init_m)))
        self.ns = self.w.ns
        self.insts = [None] * NINST
        self.hstate = [None] * NINST
        self.applied = {'m': list(self.init_m), 'f': [], 'f2': []}
        self.share_decos = share_decos
        self.decos = {}

    def state(self):
        """What a history-free twin has to reproduce: the decoration state."""
        n = len(self.init_m)
        return (self.init_m, tuple(self.applied['m'][n:]), tuple(self.applied['f']), tuple(self.applied['f2']))

    def new_instance(self, i):
        self.insts[i] = self.ns[INST_CLASSES[i]]()
        self.hstate[i] = None

    def attach(self, i, v):
        setattr(self.insts[i], 'h', self.ns[H_VALUES[v]])
        self.hstate[i] = v

    def detach(self, i):
        delattr(self.insts[i], 'h')
        self.hstate[i] = None

    def deco(self, atom):
        """The decorator object for an atom: built afresh for every application, or -- when the
        run shares decorators -- one object applied over and over, as in `kw = kwoargs(...)`."""
        if not self.share_decos:
            return eval(ATOM_EXPR[atom], self.ns)
        d = self.decos.get(atom)
        if d is None:
            d = self.decos[atom] = eval(ATOM_EXPR[atom], self.ns)
        return d

    def names(self):
        n = dict((id(o), nm) for nm, o in snapshot.closure(self.w))
        for i, o in enumerate(self.insts):
            if o is not None:
                n[id(o)] = 'inst:' + INST_CLASSES[i]
        return n

    def redecorate(self, which, atom):
        """Apply one more modifier to K.m / f.  Raises ValueError when inadmissible."""
        deco = self.deco(atom)
        if which == 'm':
            K = self.ns['K']
            new = deco(K.__dict__['m'])
            K.m = new
        else:
            self.ns[which] = deco(self.ns[which])
        self.applied[which].append(atom)

    def target(self, tdesc):
        kind = tdesc[0]
        if kind == 'inst':
            _, i, attr, via = tdesc
            inst = self.insts[i]
            if attr == '<self>':
                return inst, inst
            if via == 'getattr':
                return getattr(inst, attr), inst
            owner = self.ns['K'] if via == 'get:K' else type(inst)
            raw = None
            for klass in type(inst).__mro__:
                if attr in klass.__dict__:
                    raw = klass.__dict__[attr]
                    break
            return raw.__get__(inst, owner), inst
        if kind == 'class':
            _, owner, attr = tdesc
            if attr == '<self>':
                return self.ns[owner], None
            return getattr(self.ns[owner], attr), None
        if kind == 'func':
            return self.ns['f'], None
        if kind == 'func2':
            return self.ns['f2'], None
        raise KeyError(kind)

    def teardown(self):
        self.insts = [None] * NINST
        self.decos.clear()
        self.w.teardown()


def norm_ret(v, inst):
    """Return values carry `self`; replace it by SELF / WRONG-INSTANCE at once so
    that no outcome keeps an instance alive."""
    if isinstance(v, tuple):
        return tuple(norm_ret(x, inst) for x in v)
    if isinstance(v, (int, str, float, type(None))):
        return v
    if isinstance(v, type):
        return 'CLS:' + v.__name__
    if inst is not None and v is inst:
        return 'SELF'
    return 'WRONG-INSTANCE:' + type(v).__name__


def do_op(env, op, tdesc, extra, obj=None, inst=None):
    """Perform retrieve/call on env; returns a normalised outcome."""
    if obj is None:
        try:
            obj, inst = env.target(tdesc)
        except Exception as e:
            return ('bind-exc', type(e).__name__)
    if op == 'retrieve':
        names = env.names()
        return snapshot.outcome(lambda: _retrieve(extra, obj), names)
    if op == 'call':
        args, kwargs = CALL_SHAPES[extra]
        if tdesc[0] == 'class' and tdesc[2] not in OWNER_BOUND:
            # unbound: pass a fresh instance of the owner explicitly
            inst = env.ns[tdesc[1]]()
            args = (inst,) + tuple(args)
        try:
            r = obj(*args, **kwargs)
        except Exception as e:
            return ('exc', type(e).__name__)
        return ('ret', norm_ret(r, inst))
    raise KeyError(op)


_TWIN = {}


def twin_outcome(state, op, tdesc, extra, eq_mode=0, h=None):
    """First-time outcome on a freshly compiled world in the same decoration
    state (same class-body decoration, later atoms applied in the given order with fresh
    decorator objects before anything is bound), on a fresh instance carrying the same `h`."""
    init_m, m_atoms, f_atoms, f2_atoms = state
    ttd = tdesc
    if tdesc[0] == 'inst':
        ttd = ('inst', tdesc[1], tdesc[2], tdesc[3])
    key = (state, op, ttd, extra, eq_mode, h)
    r = _TWIN.get(key)
    if r is not None:
        return r
    if len(_TWIN) > 50000:
        _TWIN.clear()
    from sim import sutstate
    iso = sutstate.isolated()
    iso.__enter__()
    env = Env(eq_mode, init_m)
    try:
        try:
            for a in m_atoms:
                env.redecorate('m', a)
            for a in f_atoms:
                env.redecorate('f', a)
            for a in f2_atoms:
                env.redecorate('f2', a)
        except ValueError:
            r = ('inadmissible',)
        else:
            if tdesc[0] == 'inst':
                env.new_instance(tdesc[1])
                if h is not None:
                    env.attach(tdesc[1], h)
            r = do_op(env, op, ttd, extra)
    finally:
        env.teardown()
        iso.__exit__()
    _TWIN[key] = r
    return r


def full_view(atoms, which):
    """Everything observable about the attribute when `atoms` are applied in this order to the
    undecorated definition: signatures (class- and instance-level, sigtools and inspect) and
    call behaviour over all call shapes -- one fresh world per order, the same fixed sequence of
    observations in every order."""
    key = ('view', tuple(atoms), which)
    r = _TWIN.get(key)
    if r is not None:
        return r
    out = []
    if which == 'm':
        targets = [('class', 'K', 'm'), ('inst', 0, 'm', 'getattr'), ('inst', 2, 'm', 'getattr')]
    elif which == 'f':
        targets = [('func',)]
    else:
        targets = [('func2',)]
    from sim import sutstate
    iso = sutstate.isolated()
    iso.__enter__()
    env = Env()
    try:
        try:
            for a in atoms:
                env.redecorate(which, a)
        except ValueError:
            out = ('inadmissible',)
        else:
            for i in range(3):
                env.new_instance(i)
            for td in targets:
                for how in HOWS[:2]:
                    o = do_op(env, 'retrieve', td, how)
                    if o[0] == 'ok':    # provenance names the translator objects, which differ by construction
                        o = ('ok', dict(str=o[1]['str'], params=o[1]['params'], ret=o[1]['ret']))
                    out.append((td, how, snapshot.freeze(o)))
                for si in range(len(CALL_SHAPES)):
                    out.append((td, 'call', si, do_op(env, 'call', td, si)))
            out = tuple(out)
    finally:
        env.teardown()
        iso.__exit__()
    if len(_TWIN) > 50000:
        _TWIN.clear()
    _TWIN[key] = out
    return out


def retention_path(wr, ignore_ids):
    """Shortest referrer chain (type names) from the instance behind weakref
    `wr` towards a class/module dict.  A reference held by a frame of the
    harness itself is a HarnessError, never a finding."""
    import sys
    import types
    from sim.runner import VERIF_DIR
    me = sys._getframe()
    obj = wr()
    if obj is None:
        return 'already reclaimed'
    seen = {id(obj)}
    frontier = [(obj, ())]
    del obj
    ignore = set(ignore_ids)
    best = None
    culprit = None
    for depth in range(40):
        nxt = []
        for o, path in frontier:
            refs = gc.get_referrers(o)
            ignore.add(id(refs))
            cands = []
            for r in refs:
                if id(r) in seen or id(r) in ignore or r is me:
                    continue
                if isinstance(r, types.FrameType):
                    if depth == 0 and r.f_code.co_filename.startswith(VERIF_DIR):
                        culprit = '{0}:{1}'.format(r.f_code.co_name, r.f_lineno)
                    continue
                if isinstance(r, types.TracebackType):
                    continue
                if r is frontier or r is nxt:
                    continue
                seen.add(id(r))
                cands.append(r)
            for r in cands:
                p = path + (type(r).__name__,)
                if isinstance(r, (type, types.ModuleType)) or (
                        isinstance(r, dict) and '__name__' in r and '__builtins__' in r):
                    if best is None or p < best:
                        best = p
                    continue
                nxt.append((r, p))
            del refs, cands
        if best is not None:
            break
        ignore.add(id(nxt))
        frontier = nxt
        if len(frontier) > 20000:
            break
    del frontier, nxt
    if culprit is not None and best is None:
        raise HarnessError('a harness frame ({0}) still refers to the dropped instance'.format(culprit))
    if best is None:
        return 'no path to a class or module found within 40 hops'
    return ' <- '.join(best)


class C18Hist(object):
    property_id = PROP
    name = 'hist'

    def run(self, ch, cfg):
        res = RunResult()
        eq_mode = 1 if ch.chance(1, 4, 'value-equal-instances') else 0
        if eq_mode:
            res.counters['runs_with_value_equal_instances'] += 1
        init_m = INIT_STACKS[ch.draw(len(INIT_STACKS), 'class-body-decoration')]
        share = ch.chance(1, 2, 'shared-decorator-objects')
        if init_m:
            res.counters['runs_with_class_body_decoration'] += 1
        if share:
            res.counters['runs_sharing_decorator_objects'] += 1
        env = Env(eq_mode, init_m, role='hist', share_decos=share)
        try:
            self._run(ch, cfg, res, env)
        finally:
            env.teardown()
        gc.collect()
        return res

    def _run(self, ch, cfg, res, env):
        for i in range(NINST):
            env.new_instance(i)
        slots = []                  # [obj, inst index, tdesc, version]
        version = [0]
        trace = []
        hist_abs = []
        touched = [set() for _ in range(NINST)]     # attrs accessed per instance (for the leak report)
        bound_before = [False]

        def viol(clause, symptom, detail):
            res.violations.append(Violation(PROP, clause, 'c18', symptom,
                                            detail='{0}; history={1}'.format(detail, trace)))

        # swarm: every run has a focus (attribute, instance) most accesses go to, and its own
        # operation mix, so that access -> change -> access-again patterns are common
        focus_attr = ATTRS[ch.weighted([6, 2, 2, 1, 1, 1, 1, 2, 2, 2, 2, 2], 'focus-attr')]
        focus_inst = ch.draw(NINST, 'focus-inst')
        # retrieve bind call redecorate drop_slot drop_instance gc new_instance attach detach copy_instance
        op_weights = [[4, 3, 3, 3, 1, 2, 1, 1, 1, 1, 1], [4, 1, 2, 6, 0, 1, 0, 0, 1, 0, 0],
                      [3, 4, 3, 1, 2, 4, 1, 2, 1, 1, 1], [5, 2, 5, 2, 1, 1, 1, 1, 3, 1, 2]][ch.draw(4, 'op-mix')]

        def draw_target():
            if env.insts[focus_inst] is not None and ch.chance(2, 3, 'use-focus'):
                if ch.chance(1, 4, 'focus-through-class'):
                    # the focus attribute looked up on a class: through K, a subclass, ...
                    return ('class', ['K', 'Sub', 'KH'][ch.draw(3, 'owner')], focus_attr)
                via = ['getattr', 'getattr', 'get:K', 'get:own'][ch.draw(4, 'via')]
                return ('inst', focus_inst, focus_attr, via)
            k = ch.weighted([5, 2, 1], 'target-kind')
            if k == 0:
                live = [i for i in range(NINST) if env.insts[i] is not None]
                if not live:
                    return None
                i = live[ch.draw(len(live), 'instance')]
                attr = ATTRS[ch.weighted(ATTR_W, 'attr')]
                via = ['getattr', 'getattr', 'get:K', 'get:own'][ch.draw(4, 'via')]
                return ('inst', i, attr, via)
            if k == 1:
                owner = ['K', 'Sub', 'KH'][ch.draw(3, 'owner')]
                attr = ATTRS[ch.weighted(ATTR_W, 'attr')]
                return ('class', owner, attr)
            return ('func',) if ch.chance(1, 2, 'which-function') else ('func2',)

        nops = 1 + ch.draw(cfg.get('hist_len', 6), 'n-ops')

        def one_step(step):
            # every operation runs in its own frame: no local of the history loop may
            # keep an instance or a bound object alive behind the harness's back
            opk = ch.weighted(op_weights, 'op')
            opname = ['retrieve', 'bind', 'call', 'redecorate', 'drop_slot', 'drop_instance', 'gc', 'new_instance',
                      'attach', 'detach', 'copy_instance'][opk]
            res.steps += 1
            if opname in ('retrieve', 'call'):
                use_slot = slots and ch.chance(1, 4, 'use-slot')
                if use_slot:
                    j = ch.draw(len(slots), 'slot')
                    obj, ii, td, ver = slots[j]
                    inst = env.insts[ii] if ii is not None else None
                else:
                    td = draw_target()
                    if td is None:
                        return False
                    obj = inst = None
                    ver = version[0]
                extra = ch.pick(HOWS, 'how') if opname == 'retrieve' else ch.draw(len(CALL_SHAPES), 'shape')
                if td[0] == 'func' and opname == 'call' and False:
                    return False
                got = do_op(env, opname, td, extra, obj=obj, inst=inst)
                res.evals += 1
                trace.append('{0}({1}{2}, {3})'.format(opname, 'slot:' if use_slot else '', td, extra))
                hist_abs.append((opname, td[0], td[2] if len(td) > 2 else '', bool(use_slot)))
                if td[0] == 'inst':
                    touched[td[1]].add(td[2])
                    bound_before[0] = True
                if use_slot and ver != version[0]:
                    res.counters['stale_slot_comparison_skipped'] += 1
                    return False
                exp = twin_outcome(env.state(), opname, td, extra, env.eq_mode,
                                   env.hstate[td[1]] if td[0] == 'inst' else None)
                res.event(step, opname, td, extra, snapshot.freeze(got))
                if snapshot.freeze(got) != snapshot.freeze(exp):
                    if opname == 'call' and 'WRONG-INSTANCE' in repr(got):
                        viol('H3', 'call routed to the wrong instance',
                             'step {0} {1}: got {2}, twin {3}'.format(step, trace[-1], got, exp))
                    else:
                        what = 'signature' if opname == 'retrieve' else 'call behaviour'
                        viol('H2', '{0} of {1} differs from the history-free twin'.format(
                            what, td[2] if len(td) > 2 else 'f'),
                             'step {0} {1}: got {2}, twin {3}'.format(step, trace[-1], _short(got), _short(exp)))
                    return True
                if res.counters['retrieve_after_redecorate'] == 0 and version[0] and opname == 'retrieve':
                    res.counters['probe:retrieve_after_redecorate'] += 1
            elif opname == 'bind':
                td = draw_target()
                if td is None:
                    return False
                try:
                    obj, inst = env.target(td)
                except Exception as e:
                    exp = twin_outcome(env.state(), 'retrieve', td, HOWS[0], env.eq_mode,
                                       env.hstate[td[1]] if td[0] == 'inst' else None)
                    trace.append('bind({0}) raised {1}'.format(td, type(e).__name__))
                    if exp[0] != 'bind-exc':
                        viol('H2', 'binding raises only after this history',
                             'step {0} bind {1} raised {2}, twin binds fine'.format(step, td, type(e).__name__))
                        return True
                    return False
                res.evals += 1
                if td[0] == 'inst':
                    touched[td[1]].add(td[2])
                    bound_before[0] = True
                    # H3: bound to the instance it was asked from
                    s = getattr(obj, '__self__', None)
                    if s is not None and s is not env.insts[td[1]] and not isinstance(s, type):
                        viol('H3', 'bound object refers to another instance',
                             'step {0} bind {1}: __self__ is {2}'.format(step, td, type(s).__name__))
                        return True
                    del s
                keep = ch.chance(1, 2, 'keep-in-slot')
                trace.append('bind({0}, keep={1})'.format(td, keep))
                hist_abs.append(('bind', td[0], td[2] if len(td) > 2 else '', keep))
                if keep and len(slots) < 4:
                    slots.append([obj, td[1] if td[0] == 'inst' else None, td, version[0]])
                del obj, inst
            elif opname == 'redecorate':
                if env.share_decos and env.decos and ch.chance(2, 3, 'reuse-decorator'):
                    # swarm: the decorator object used before, now on one of the other functions
                    used = sorted(env.decos)
                    atom = used[ch.draw(len(used), 'used-atom')]
                    which = ['m', 'f', 'f2'][ch.draw(3, 'which')]
                    res.counters['probe:decorator_object_reused'] += 1
                else:
                    which = ['m', 'm', 'm', 'm', 'f', 'f2'][ch.draw(6, 'which')]
                    atom = ATOM_NAMES[ch.draw(len(ATOM_NAMES), 'atom')]
                before = env.state()
                trace.append('redecorate({0}, {1})'.format(which, atom))
                hist_abs.append(('redecorate', which, atom, False))
                try:
                    env.redecorate(which, atom)
                    ok = True
                except ValueError:
                    ok = False
                    trace[-1] += ' -> ValueError'
                res.evals += 1
                res.counters['redecorate_' + ('applied' if ok else 'inadmissible')] += 1
                view_td = {'m': ('class', 'K', 'm'), 'f': ('func',), 'f2': ('func2',)}[which]
                if ok:
                    version[0] += 1
                    if bound_before[0]:
                        res.counters['probe:redecorate_after_bind'] += 1
                    # the other function must not have been affected by this application (a decorator
                    # object applied to several functions carries nothing over)
                    for ow, otd in (('f', ('func',)), ('f2', ('func2',)), ('m', ('class', 'K', 'm'))):
                        if ow == which:
                            continue
                        got = do_op(env, 'retrieve', otd, HOWS[0])
                        exp = twin_outcome(env.state(), 'retrieve', otd, HOWS[0], env.eq_mode)
                        if snapshot.freeze(got) != snapshot.freeze(exp):
                            viol('H2', 'decorating {0} changed {1}'.format(which, ow),
                                 'after {0}: {1} is {2}, history-free twin {3}'.format(trace[-1], ow, _short(got), _short(exp)))
                            return True
                    # H2 at once for the decorated attribute itself (class-level view)
                    got = do_op(env, 'retrieve', view_td, HOWS[0])
                    exp = twin_outcome(env.state(), 'retrieve', view_td, HOWS[0], env.eq_mode)
                    if snapshot.freeze(got) != snapshot.freeze(exp):
                        viol('H2', 'signature of {0} differs from the history-free twin'.format(which),
                             'right after {0}: got {1}, twin {2}'.format(trace[-1], _short(got), _short(exp)))
                        return True
                    # H1: any other admissible order of the same modifier set gives the same view
                    cur = env.applied[which]
                    uniq = []
                    for a in cur:
                        if a not in uniq:
                            uniq.append(a)
                    base = full_view(tuple(cur), which)
                    # repeated use: applying once more a modifier that is already part of the
                    # stack is one more admissible sequence over the same set -- same result
                    again = uniq[ch.draw(len(uniq), 'apply-again')]
                    rep_view = full_view(tuple(cur) + (again,), which)
                    if rep_view != ('inadmissible',):
                        res.counters['repeated_application_compared'] += 1
                        if rep_view != base:
                            diff = [(a, b) for a, b in zip(base, rep_view) if a != b][:2]
                            viol('H1', 'applying an already applied modifier again changes the result',
                                 '{0}: {1} vs the same followed by {2} again: {3}'.format(which, cur, again, diff))
                            return True
                    tried = 0
                    for perm in itertools.permutations(sorted(uniq)):
                        if list(perm) == uniq or tried >= cfg.get('max_perms', 4):
                            return False
                        other = full_view(tuple(perm), which)
                        tried += 1
                        if other == ('inadmissible',):
                            res.counters['order_inadmissible'] += 1
                            return False
                        res.counters['orders_compared'] += 1
                        res.key('order', which, tuple(cur), perm, nontrivial=len(uniq) > 1)
                        if other != base:
                            diff = [(a, b) for a, b in zip(base, other) if a != b][:2]
                            viol('H1', 'modifier order changes the result',
                                 '{0}: order {1} vs {2}: {3}'.format(which, cur, list(perm), diff))
                            return True
                else:
                    # an inadmissible step must leave the attribute as it was
                    got = do_op(env, 'retrieve', view_td, HOWS[0])
                    exp = twin_outcome(before, 'retrieve', view_td, HOWS[0], env.eq_mode)
                    if snapshot.freeze(got) != snapshot.freeze(exp):
                        viol('H1', 'inadmissible modifier application changed the attribute',
                             '{0} {1}: got {2} expected {3}'.format(which, atom, _short(got), _short(exp)))
                        return True
            elif opname == 'drop_slot':
                if slots:
                    j = ch.draw(len(slots), 'slot')
                    slots.pop(j)
                    trace.append('drop_slot({0})'.format(j))
                    hist_abs.append(('drop_slot', '', '', False))
            elif opname == 'gc':
                gen = ch.draw(3, 'generation')
                gc.collect(gen)
                trace.append('gc({0})'.format(gen))
                hist_abs.append(('gc', gen, '', False))
            elif opname == 'new_instance':
                free = [i for i in range(NINST) if env.insts[i] is None]
                if free:
                    i = free[ch.draw(len(free), 'free-instance')]
                    env.new_instance(i)
                    touched[i] = set()
                    trace.append('new_instance({0})'.format(i))
                    hist_abs.append(('new_instance', INST_CLASSES[i], '', False))
            elif opname == 'attach':
                live = [i for i in range(NINST) if env.insts[i] is not None]
                if not live:
                    return False
                i = focus_inst if (env.insts[focus_inst] is not None and ch.chance(1, 2, 'use-focus')) \
                    else live[ch.draw(len(live), 'instance')]
                v = ch.draw(len(H_VALUES), 'h-value')
                env.attach(i, v)
                trace.append('attach({0}, {1})'.format(i, H_VALUES[v]))
                hist_abs.append(('attach', INST_CLASSES[i], v, False))
            elif opname == 'detach':
                have = [i for i in range(NINST) if env.insts[i] is not None and env.hstate[i] is not None]
                if have:
                    i = have[ch.draw(len(have), 'instance')]
                    env.detach(i)
                    trace.append('detach({0})'.format(i))
                    hist_abs.append(('detach', INST_CLASSES[i], '', False))
            elif opname == 'copy_instance':
                # positions 0 and 1 hold the same class: copy.copy() one into the other when free
                pairs = [(a, b) for a, b in ((0, 1), (1, 0)) if env.insts[a] is not None and env.insts[b] is None]
                if pairs:
                    import copy
                    a, b = pairs[ch.draw(len(pairs), 'copy-pair')]
                    env.insts[b] = copy.copy(env.insts[a])
                    env.hstate[b] = env.hstate[a]
                    touched[b] = set()
                    res.counters['probe:instance_copied_after_access' if touched[a] else 'instance_copied'] += 1
                    trace.append('copy_instance({0} -> {1})'.format(a, b))
                    hist_abs.append(('copy_instance', bool(touched[a]), '', False))
            elif opname == 'drop_instance':
                live = [i for i in range(NINST) if env.insts[i] is not None]
                if not live:
                    return False
                i = live[ch.draw(len(live), 'instance')]
                trace.append('drop_instance({0}) touched={1}'.format(i, sorted(touched[i])))
                hist_abs.append(('drop_instance', INST_CLASSES[i], tuple(sorted(touched[i])), False))
                res.evals += 1
                wr = weakref.ref(env.insts[i])
                # control: same class, only the plain method, same kind of handling
                ctrl = env.ns[INST_CLASSES[i]]()
                cb = ctrl.plain
                try:
                    _retrieve(HOWS[0], cb)
                    cb(1)
                except Exception:
                    pass
                wc = weakref.ref(ctrl)
                del ctrl, cb
                env.insts[i] = None
                slots[:] = [s for s in slots if s[1] != i]
                cyc_only = wr() is not None
                gc.collect()
                if wc() is not None:
                    raise HarnessError('control instance not reclaimed: the harness itself holds a reference')
                if wr() is None:
                    res.counters['instances_reclaimed'] += 1
                    if cyc_only:
                        res.counters['probe:reclaimed_only_by_cyclic_gc'] += 1
                    res.key('drop', INST_CLASSES[i], tuple(sorted(touched[i])), nontrivial=bool(touched[i]))
                    return False
                # H4 violation: find out why.  First behaviourally: does emptying the translators'
                # bound-wrapper caches free it?  (that is the recorded finding D10)  Only if not,
                # classify by the retention path.
                res.counters['instances_not_reclaimed'] += 1
                n = _clear_insts_caches(env)
                gc.collect()
                if wr() is None and n:
                    viol('H4', LEAK_VIA_CACHE, 'instance {0} ({1}) touched={2} survives drop + gc.collect(); '
                         'reclaimed once {3} cached bound wrapper(s) were removed'.format(
                             i, INST_CLASSES[i], sorted(touched[i]), n))
                else:
                    path = retention_path(wr, [id(slots), id(env.insts), id(touched)])
                    # the path goes into the detail only: referrer chains depend on what else the
                    # process holds, and a violation class must reproduce exactly
                    viol('H4', 'instance kept alive by something other than the bound-wrapper caches',
                         'instance {0} ({1}) touched={2} survives drop + gc.collect() (bound-wrapper caches '
                         'emptied: {3} entries); referrer chain: {4}'.format(
                             i, INST_CLASSES[i], sorted(touched[i]), n, path))
                # the history goes on: a leak does not invalidate later comparisons

            return False

        for step in range(nops):
            if one_step(step):
                return
        res.key('hist', env.state(), tuple(hist_abs),
                nontrivial=_nontrivial(hist_abs))
        res.sample = dict(history=trace, class_body_decoration=list(env.init_m), applied_m=list(env.applied['m']),
                          applied_f=list(env.applied['f']), applied_f2=list(env.applied['f2']),
                          shared_decorator_objects=env.share_decos)

    def describe(self, choices, cfg):
        from sim.runner import run_one
        res = run_one(self, cfg, replay=choices)
        return dict(sample=res.sample, violations=[v.to_json() for v in res.violations])


def _clear_insts_caches(env):
    """Known-finding neutralisation: empty every bound-wrapper cache reachable
    from the class dictionaries (only used after that leak has been observed,
    to see whether something *else* also keeps the instance alive)."""
    n = 0
    seen = set()
    stack = []
    for cname in ('K', 'Sub', 'KH', 'Base'):
        stack.extend(env.ns[cname].__dict__.values())
    while stack and len(seen) < 200:
        v = stack.pop()
        if id(v) in seen:
            continue
        seen.add(id(v))
        c = getattr(v, 'insts', None)
        if isinstance(c, weakref.WeakKeyDictionary):
            n += len(c)
            c.clear()
            for nxt in (getattr(v, 'func', None), getattr(v, '__dict__', {}).get('__wrapped__')):
                if nxt is not None:
                    stack.append(nxt)
    return n


def _nontrivial(hist_abs):
    """A bind/retrieve/call followed by a drop, redecorate, or access from a
    different target."""
    seen_access = False
    for h in hist_abs:
        if h[0] in ('retrieve', 'bind', 'call'):
            if seen_access:
                return True
            seen_access = True
        elif h[0] in ('drop_instance', 'redecorate', 'drop_slot') and seen_access:
            return True
    return False


def _short(out):
    if out and out[0] == 'ok':
        return out[1]['str']
    return out


def setup(tier):
    thorough = tier == 'thorough'
    drivers = {'hist': C18Hist()}
    cfgs = {'hist': dict(name='hist', hist_len=12 if thorough else 6, max_perms=8 if thorough else 4,
                         chunk=60, run_timeout=300, chunk_timeout=1200)}
    return drivers, cfgs


def check(tier, budget=None, minimise=True):
    import time
    from sim import runner
    t0 = time.time()
    if budget is None:
        budget = 600.0 if tier == 'thorough' else 40.0
    drivers, cfgs = setup(tier)
    runner.warmup()
    t = runner.run_batch(drivers['hist'], cfgs['hist'], tier, budget_s=budget, label='hist',
                         stop_on_violation=False)
    print('[C18 hist] runs={0} operations={1} distinct={2} violations={3} harness_errors={4} wall={5:.1f}s'.format(
        t.runs, t.steps, len(t.distinct), len(t.violations), len(t.harness_errors), t.wall_s))
    code, nviol, known = runner.report(drivers, cfgs, tier, [('hist', t)], do_minimise=minimise)
    wall = time.time() - t0
    coverage = dict(
        evaluations=t.evals,
        distinct_nontrivial=len(t.distinct),
        rule=('one run = one drawn history (<= {0} operations from retrieve / bind / call / redecorate (K.m, f, f2; decorator '
              'objects shared across applications in half of the runs) / drop_slot / drop_instance+gc.collect / gc(gen) / '
              'new_instance / attach / detach / copy_instance) over a class hierarchy with modifiers-, forger- and '
              'wrappers-decorated members (K.m optionally decorated already in the class body), two module functions and '
              'four instance positions; evaluations = operations whose outcome was compared with the history-free twin (or '
              'reclamation checks); distinct = (decoration state, abstract history with targets reduced to kind/attribute) '
              'plus distinct (order, permutation) and (class, touched attributes) drop cases; non-trivial = an access '
              'followed by another access, a drop or a redecorate.').format(cfgs['hist']['hist_len']),
        samples=t.samples[:5],
        exhaustive=False,
        runs=t.runs,
        runs_per_hour=int(t.runs / max(wall, 1e-6) * 3600),
        logical_steps=t.steps,
        logical_steps_note='simulated time = history operations',
        counters=dict(sorted(t.counters.items())),
        known_findings_reported=known,
        harness_errors=len(t.harness_errors),
        real_components=['sigtools (current /repo tree)', 'inspect', 'functools', 'weakref', 'gc module (explicit collections)'],
        stubs=['GC trigger (automatic collection off; collections only as history events)',
               'file contents behind linecache (generated in-memory module)'],
        seeds=dict(verif_seed=runner.verif_seed(),
                   derivation='run_seed = sha256(VERIF_SEED, property, batch, tier, run index)[:8]'),
    )
    assumptions = [
        'slots holding objects bound before a later redecorate are not compared (their expected state is unspecified)',
        'modifier atoms have disjoint annotation targets, so that the set of modifiers determines the result',
    ]
    if t.evals < 1 or len(t.distinct) < 2:
        print('HARNESS-ERROR insufficient reach: evaluations={0} distinct={1}'.format(t.evals, len(t.distinct)))
        code = code or 2
    runner.write_evidence(PROP, tier, 'exploration', coverage, assumptions, wall, nviol)
    print('[C18] tier={0} exit={1} wall={2:.1f}s'.format(tier, code, wall))
    return code
