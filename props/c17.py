"""C17 -- concurrent signature retrieval gives the sequential answer.

2-3 caller threads run real sigtools/inspect code against one shared world under
the baton scheduler; a seeded search over schedules (uniform / window-biased
local pre-emptions, PCT priorities, random walk) decides the interleaving.
Oracle: Q1 every call's outcome equals the outcome of the same call executed
alone on a fresh twin world; Q2 quiescence (no __wrapped__/__signature__ lost,
guard empty, a solo retrieval afterwards returns the baseline).
"""

import os
import inspect
import hashlib

from sim import worlds, snapshot, sched
from sim.runner import RunResult, Violation, HarnessError

PROP = 'C17'

# selftest: also prove determinism of the rarer modes (always pre-history, always fine yield points)
SELFTEST_VARIANTS = {'sched': [dict(prehistory=8, fine=4), dict(extra_yield=12, extra_yield_kinds=[2, 3])]}

TEMPLATES = ['wraps', 'wraps_annot', 'sigattr', 'fwd', 'meth', 'mod', 'deco', 'asforged', 'comb', 'instdep', 'chain', 'deep', 'siblings']

ENTRIES = ['sigtools.signature', 'inspect.signature', 'sigtools.signature(auto=False)', 'signatures.signature']


def call_entry(name, subj):
    import sigtools
    from sigtools import signatures
    if name == 'sigtools.signature':
        return sigtools.signature(subj)
    if name == 'inspect.signature':
        return inspect.signature(subj)
    if name == 'sigtools.signature(auto=False)':
        return sigtools.signature(subj, auto=False)
    return signatures.signature(subj)


def binding_of(o, names):
    """Stable names of the instances the object handed out by the subject expression is bound
    to (through __self__ of bound methods found in it, depth <= 3) -- 'each bound to the right
    instance' must hold under interleaving too."""
    import types
    import functools
    found = set()
    seen = set()
    todo = [(o, 0)]
    while todo:
        x, d = todo.pop()
        if id(x) in seen or d > 3:
            continue
        seen.add(id(x))
        if isinstance(x, types.MethodType):
            n = names.get(id(x.__self__))
            found.add(n if n is not None else '<unknown instance>')
            todo.append((x.__func__, d + 1))
            continue
        if isinstance(x, functools.partial):
            todo.append((x.func, d + 1))
            continue
        if isinstance(x, (types.FunctionType, type, types.BuiltinFunctionType)):
            continue
        try:
            dd = object.__getattribute__(x, '__dict__')
        except AttributeError:
            continue
        if isinstance(dd, dict):
            for k in sorted(dd, key=str):
                v = dd[k]
                if isinstance(v, (types.MethodType, functools.partial)) or \
                        type(v).__module__.startswith('sigtools'):
                    todo.append((v, d + 1))
    return tuple(sorted(found))


def run_call(entry, w, label, names):
    """Outcome of one call: (kind, normalised result, instances the subject is bound to)."""
    box = []

    def fn():
        subj = w.subject(label)
        box.append(subj)
        return call_entry(entry, subj)
    out = snapshot.outcome(fn, names)
    return tuple(out) + (binding_of(box[0], names) if box else None,)


# ---------------------------------------------------------------------------
# policies

class LocalPreempt(sched.Policy):
    """Pre-empt thread t when it reaches its own local step s, handing the baton
    to `target`.  points: list of (t, s, target)."""

    def __init__(self, first, points, finish_order):
        self.first = first
        self.points = {}
        for t, s, target in points:
            self.points.setdefault((t, s), target)
        self.finish_order = finish_order

    def start(self, n):
        return self.first

    def at_step(self, s, cur):
        tgt = self.points.get((cur, s.local_steps[cur]))
        if tgt is None:
            return cur
        live = [j for j in range(s.n) if not s.done[j] and j != cur]
        if not live:
            return cur
        return live[tgt % len(live)]

    def at_finish(self, s, cur, live):
        return live[self.finish_order % len(live)]


class RandomWalk(sched.Policy):
    """Switch after drawn gaps; draws happen during the run (recorded, replayable)."""

    def __init__(self, ch, maxgap, first):
        self.ch = ch
        self.maxgap = maxgap
        self.first = first
        self.next_at = 1 + ch.draw(maxgap, 'gap')

    def start(self, n):
        return self.first

    def at_step(self, s, cur):
        if s.step < self.next_at:
            return cur
        self.next_at = s.step + 1 + self.ch.draw(self.maxgap, 'gap')
        live = [j for j in range(s.n) if not s.done[j] and j != cur]
        if not live:
            return cur
        return live[self.ch.draw(len(live), 'walk-target')]

    def at_finish(self, s, cur, live):
        return live[self.ch.draw(len(live), 'finish-target')]


class AccessWalk(sched.Policy):
    """Switch where the running thread is at a source line that touches state outliving the
    call (sim/static.py: attribute / global writes in descriptors, wrappers and module-level
    functions, and the reads of the same names; plus the lines mentioning process-wide state).
    Decided dynamically at the line, not from positions measured in a solo pass, so it also
    reaches paths the solo pass never took (the hit path of a cache)."""

    def __init__(self, ch, lines, one_in, first, max_switches=8):
        self.ch = ch
        self.lines = lines
        self.one_in = one_in
        self.first = first
        self.left = max_switches

    def start(self, n):
        return self.first

    def at_step(self, s, cur):
        code = s.cur_code
        if self.left <= 0 or code is None or s.cur_line not in self.lines.get(code.co_filename, ()):
            return cur
        if self.one_in > 1 and self.ch.draw(self.one_in, 'switch-here'):
            return cur
        live = [j for j in range(s.n) if not s.done[j] and j != cur]
        if not live:
            return cur
        self.left -= 1
        return live[self.ch.draw(len(live), 'walk-target')]

    def at_finish(self, s, cur, live):
        return live[self.ch.draw(len(live), 'finish-target')]


def access_line_map():
    from sim import static, sutstate
    out = dict((k, set(v)) for k, v in static.interesting_lines().items())
    for k, v in sutstate.access_lines().items():
        out.setdefault(k, set()).update(v)
    return out


class PCT(sched.Policy):
    """Probabilistic concurrency testing: random priorities, d-1 change points
    (global steps) at which the running thread drops below everybody."""

    def __init__(self, prios, change_points):
        self.prios = list(prios)
        self.change = sorted(change_points)
        self.low = -1

    def _best(self, s, exclude=None):
        live = [j for j in range(s.n) if not s.done[j] and j != exclude]
        if not live:
            return None
        return max(live, key=lambda j: (self.prios[j], -j))

    def start(self, n):
        return max(range(n), key=lambda j: (self.prios[j], -j))

    def at_step(self, s, cur):
        if self.change and s.step >= self.change[0]:
            self.change.pop(0)
            self.prios[cur] = self.low
            self.low -= 1
            b = self._best(s)
            return cur if b is None else b
        return cur

    def at_finish(self, s, cur, live):
        return max(live, key=lambda j: (self.prios[j], -j))


# ---------------------------------------------------------------------------

_TWIN_CACHE = {}

# pre-history: what the process did before the racing calls.  A pool of small forwarding
# functions (distinct code objects, compiled once per process) whose signatures are retrieved
# sequentially before the threads start, so that whatever retrieval keeps per process (memos,
# bounded caches) is warm or full when the race begins.
_AUX = [None]
AUX_N = 320


def aux_functions():
    if _AUX[0] is None:
        import linecache
        import types
        src = worlds.HEADER + 'def auxt(x, y=1, *, z=2):\n    return x\n\n' + ''.join(
            'def aux{0}(a{0}, *args, **kwargs):\n    return auxt(*args, **kwargs)\n\n'.format(i)
            for i in range(AUX_N))
        fn = '<sim:aux.py>'
        linecache.cache[fn] = (len(src), None, src.splitlines(True), fn)
        mod = types.ModuleType('simworld_aux')
        mod.__file__ = fn
        exec(compile(src, fn, 'exec'), mod.__dict__)
        _AUX[0] = [mod.__dict__['aux{0}'.format(i)] for i in range(AUX_N)]
    return _AUX[0]


def prefill(n):
    import sigtools
    for f in aux_functions()[:n]:
        sigtools.signature(f)


_CAPACITY = {}


def observed_capacity():
    """How many retrievals of distinct functions it takes until some container of sigtools'
    process-wide state stops growing or shrinks (a bounded cache evicting / being flushed);
    None when nothing grows with retrievals (the tree as given) or nothing fills up within
    AUX_N.  A pure function of the tree: measured from the post-warm-up state, memoised."""
    if 'n' in _CAPACITY:
        return _CAPACITY['n']
    import sigtools
    from sim import sutstate
    with sutstate.isolated():
        start = prev = sutstate.container_sizes()
        grow = None
        cap = None
        for n, f in enumerate(aux_functions(), 1):
            sigtools.signature(f)
            sz = sutstate.container_sizes()
            if n == 8:
                grow = [i for i, (a, b) in enumerate(zip(start, sz)) if b > a]
                if not grow:
                    break
            elif n > 8 and any(sz[i] <= prev[i] for i in grow):
                cap = n
                idx = [i for i in grow if sz[i] <= prev[i]][0]
                _CAPACITY['idx'] = idx          # which container filled up
                _CAPACITY['peak'] = prev[idx]   # its size when full
                break
            prev = sz
    _CAPACITY['n'] = cap
    return cap


_PAIRS = {}


def reader_writer_pairs(spec):
    """For a tree whose process-wide state has a bounded container: which subjects of this
    world make it grow when looked at for the first time (they go through it), and for which
    ordered pairs (Lr, Lw) a first look at Lw still makes it grow after Lr has been looked at
    (Lw misses where Lr now hits).  Measured on twins in isolation; memoised per world text."""
    key = spec['source']
    r = _PAIRS.get(key)
    if r is not None:
        return r
    if len(_PAIRS) > 5000:
        _PAIRS.clear()
    import sigtools
    from sim import sutstate
    idx = _CAPACITY.get('idx')
    labels = sorted(spec['subjects'])
    pairs = []
    if idx is not None:
        with sutstate.isolated():
            w = worlds.build(spec)
            try:
                users = []
                for lab in labels:
                    sutstate.restore()
                    a = sutstate.container_sizes()[idx]
                    try:
                        sigtools.signature(w.subject(lab))
                    except Exception:
                        continue
                    if sutstate.container_sizes()[idx] > a:
                        users.append(lab)
                for lr in users[:6]:
                    for lw in users[:6]:
                        sutstate.restore()
                        try:
                            sigtools.signature(w.subject(lr))
                            a = sutstate.container_sizes()[idx]
                            sigtools.signature(w.subject(lw))
                        except Exception:
                            continue
                        if sutstate.container_sizes()[idx] > a:
                            pairs.append((lr, lw))
            finally:
                w.teardown()
    _PAIRS[key] = pairs
    return pairs


def fill_to_brim():
    """Retrieve auxiliary functions one at a time until the bounded container is full."""
    import sigtools
    from sim import sutstate
    idx, peak = _CAPACITY.get('idx'), _CAPACITY.get('peak')
    n = 0
    for f in aux_functions():
        if sutstate.container_sizes()[idx] >= peak:
            break
        sigtools.signature(f)
        n += 1
    return n


def expected_outcome(spec, entry, label, inspect_lines=False, need_wp=False, cfg=None, fine=False, warm=False, cold=False):
    """(outcome, steps, write points) of the call executed alone, under a
    one-thread scheduler, on a fresh twin world.  Memoised per world source text
    (it is a pure function of it).  Write points = local steps at which shared
    state changed, discovered by diffing (no line numbers are hard-coded)."""
    key = (spec['source'], entry, label, inspect_lines, fine, warm, cold)
    r = _TWIN_CACHE.get(key)
    if r is not None and (r[2] is not None or not need_wp):
        return r
    if len(_TWIN_CACHE) > 20000:
        _TWIN_CACHE.clear()
    from sim import sutstate
    iso = sutstate.isolated()
    iso.__enter__()
    if cold:
        sutstate.restore_import()      # the measured call is the first retrieval of the process
    w = worlds.build(spec)
    try:
        objects = snapshot.closure(w)
        names = dict((id(o), n) for n, o in objects)
        out = [None]
        points = [] if need_wp else None
        sut_points = [] if need_wp else None
        if need_wp:
            snap = snapshot.Snapshot(objects)
            last = [world_fp(snap, objects)]

            from sim import sutstate as _ss
            access = _ss.access_lines()

            class Watch(sched.Policy):
                def at_step(self, s, cur):
                    code = s.cur_code
                    if code is not None and s.cur_line in access.get(code.co_filename, ()):
                        # a line that mentions process-wide state (read or write side of a
                        # check-then-act)
                        if not sut_points or sut_points[-1] != s.local_steps[cur]:
                            sut_points.append(s.local_steps[cur])
                    fp = world_fp(snap, objects)
                    if fp != last[0]:
                        if fp[-1] != last[0][-1] and (not sut_points or sut_points[-1] != s.local_steps[cur]):
                            # process-wide sigtools state (none on the tree as given) was written
                            sut_points.append(s.local_steps[cur])
                        last[0] = fp
                        points.append(s.local_steps[cur])
                    return cur
            policy = Watch()
        else:
            policy = sched.Policy()

        if warm:
            # the measured call is the *second* look at the subject in this process (its first
            # one, sequential and unobserved, comes before): the path taken when things are cached
            try:
                call_entry('sigtools.signature', w.subject(label))
            except Exception:
                pass
            if need_wp:
                snap = snapshot.Snapshot(objects)
                last[0] = world_fp(snap, objects)

        def body(s, i):
            out[0] = run_call(entry, w, label, names)
        s = sched.Scheduler([body], policy, step_cap=(cfg or {}).get('step_cap', 400000),
                            inspect_lines=inspect_lines, fine=fine)
        s.run()
        r = (out[0], s.step, points[:40] if points is not None else None,
             sut_points[:80] if sut_points is not None else None)
    finally:
        w.teardown()
        iso.__exit__()
    _TWIN_CACHE[key] = r
    return r


def world_fp(snap, objects):
    """Fingerprint of everything shared that a retrieval might write: attribute
    sets/identities of world objects, sizes of containers they hold, the guard."""
    import weakref
    conts = getattr(snap, '_c17_containers', None)
    if conts is None:
        conts = []
        for name, o, before in snap.state:
            for k, v in before.items():
                if isinstance(v, (dict, set, list, weakref.WeakKeyDictionary)):
                    conts.append(v)
        snap._c17_containers = conts
    fp = [snap.fingerprint()]
    sizes = []
    for v in conts:
        try:
            sizes.append(len(v))
        except Exception:
            sizes.append(-1)
    from props.c16 import _guard_container_len
    from sim import sutstate
    return (tuple(fp), tuple(sizes), _guard_container_len(), sutstate.fingerprint())


class C17Sched(object):
    property_id = PROP
    name = 'sched'

    def run(self, ch, cfg):
        res = RunResult()
        spec = worlds.draw_spec(ch, cfg['templates'], max_forged=cfg.get('max_forged', 1),
                                max_depth=cfg.get('max_depth', 2))
        from sim import sutstate as _sut0
        cold = ch.chance(4 if _sut0.first_use_state() else 1, 16, 'process-first-use')
        if cold:
            # nothing has been retrieved in this process yet: one-time set-up (lazily built
            # tables, first-use initialisation of module state) happens inside the race
            from sim import sutstate
            sutstate.restore_import()
            res.counters['runs_starting_from_import_state'] += 1
        nthreads = 2 + (1 if ch.chance(cfg.get('three_threads', 1), 8, 'three-threads') else 0)
        labels = sorted(spec['subjects'])
        programs = []
        same = ch.chance(1, 2, 'same-object')
        l0 = ch.pick(labels, 'label0')
        for t in range(nthreads):
            ncalls = 1 + (1 if ch.chance(1, 4, 'two-calls') else 0)
            prog = []
            for c in range(ncalls):
                entry = ENTRIES[ch.weighted([4, 4, 1, 1], 'entry')]
                label = l0 if same else ch.pick(labels, 'label')
                prog.append((entry, label))
            programs.append(prog)
        # lines of inspect.py (1) / weakref.py (2) / both (3) as additional yield points
        inspect_lines = 0
        if ch.chance(cfg.get('extra_yield', 1), 12, 'extra-yield-files'):
            inspect_lines = cfg.get('extra_yield_kinds', [2])[ch.draw(len(cfg.get('extra_yield_kinds', [2])), 'extra-yield-kind')]
            res.counters['extra_yield_files:' + {1: 'inspect', 2: 'weakref', 3: 'inspect+weakref'}[inspect_lines]] += 1
        # fine: also yield where a call made from a sigtools line has just returned (the points
        # inside a line at which CPython really can hand over the GIL)
        fine = ch.chance(cfg.get('fine', 1), 4, 'fine-yield-points')
        res.event('world', spec['template'], sorted(spec['params'].items(), key=str), programs, inspect_lines, fine)
        res.counters['yield_points:' + ('line+after-call' if fine else 'line')] += 1
        tpl = spec['template']

        # pre-history: what the process did before (see prefill); such runs look for races on
        # process-wide state, so they use the write-point-biased strategy
        npre = 0
        # a tree whose process-wide state was seen to fill up gets far more of these runs
        if ch.chance(cfg.get('prehistory', 1) * (4 if observed_capacity() is not None else 1), 8, 'pre-history'):
            npre = [40, 300, 300][ch.draw(3, 'pre-history-length')]
        if cold:
            npre = 0
        brim = None
        if npre and observed_capacity() is not None and ch.chance(1, 2, 'brim-mode'):
            # a bounded container exists: one thread that finds its subject there (or, cold,
            # inserts it) against one that has to insert, with the container filled to the brim
            pairs = reader_writer_pairs(spec)
            if pairs:
                lr, lw = pairs[ch.draw(len(pairs), 'reader-writer-pair')]
                brim = dict(reader_warm=bool(ch.draw(2, 'reader-warm')))
                programs = [[('sigtools.signature', lr)], [('sigtools.signature', lw)]]
                nthreads = 2
                res.counters['runs_in_brim_mode'] += 1
        if brim:
            strategy = 1
        elif npre or cold:
            strategy = [1, 4][ch.draw(2, 'prehistory-strategy')]
        else:
            strategy = ch.weighted(cfg.get('strategy_weights', [3, 3, 2, 2, 3, 3]), 'strategy')
        sweep = None
        if strategy == 5:
            # sweep: two threads, one call each; every step at which thread 0's solo pass touched
            # shared state (world or process-wide) is tried, each as the single pre-emption of an
            # execution of its own (thread 0 parked there, thread 1 runs through, thread 0 resumes)
            nthreads = 2
            programs = [programs[0][:1], programs[1][:1]]
            npre = 0
            brim = None
        first = ch.draw(nthreads, 'first-thread')
        warm_own = bool(npre) and ch.chance(1, 2, 'warm-own-subjects')
        if brim:
            warm_own = brim['reader_warm']
            first = 0
        solo = [[expected_outcome(spec, e, l, inspect_lines, need_wp=(strategy in (1, 5)), cfg=cfg, fine=fine,
                                  warm=(warm_own and ti == 0), cold=cold) for e, l in prog]
                for ti, prog in enumerate(programs)]
        for ti in range(nthreads):
            if sum(r[1] for r in solo[ti]) == 0:
                # this thread's calls never enter sigtools code (plain inspect.signature on an object
                # sigtools has nothing to do with): nothing could be interleaved; ask through
                # sigtools.signature instead
                programs[ti] = [('sigtools.signature', l) for _e, l in programs[ti]]
                solo[ti] = [expected_outcome(spec, e, l, inspect_lines, need_wp=(strategy in (1, 5)), cfg=cfg,
                                             fine=fine, warm=(warm_own and ti == 0), cold=cold)
                            for e, l in programs[ti]]
                res.counters['programs_redirected_to_sigtools_signature'] += 1
        expected = [[r[0] for r in t] for t in solo]
        solo_len = [sum(r[1] for r in t) for t in solo]
        write_points = []
        for t in solo:
            pts, base = [], 0
            for r in t:
                pts.extend(base + p for p in (r[2] or []))
                base += r[1]
            write_points.append(pts)
        sut_write_points = []
        for t in solo:
            pts, base = [], 0
            for r in t:
                pts.extend(base + p for p in (r[3] or []))
                base += r[1]
            sut_write_points.append(pts)
        if brim and sut_write_points[0]:
            write_points = [sut_write_points[0], []]
            radii = [0, 0, 0, 1]
        elif (npre or cold) and any(sut_write_points):
            # races on process-wide state: aim at the very steps that write to it
            write_points = sut_write_points
            radii = [0, 1, 2, 3]
        elif any(sut_write_points) and ch.chance(1, 2, 'aim-at-process-state'):
            write_points = [sorted(set(a) | set(b)) for a, b in zip(write_points, sut_write_points)]
            radii = [0, 1, 3, 10]
            res.counters['runs_aiming_at_process_state_writes'] += 1
        else:
            radii = [1, 3, 10, 30]
        if strategy == 0 or (strategy == 1 and not any(write_points)):
            k = 1 + ch.draw(3, 'n-preemptions')
            points = []
            for _ in range(k):
                t = ch.draw(nthreads, 'preempt-thread')
                s = 1 + ch.draw(max(1, solo_len[t]), 'preempt-step')
                points.append((t, s, ch.draw(nthreads - 1, 'preempt-target')))
            # the thread that starts is one that will be pre-empted: otherwise the starter runs to
            # completion undisturbed and the schedule is sequential
            first = points[0][0] if not brim else first
            policy = LocalPreempt(first, points, ch.draw(nthreads, 'finish-order'))
            sname = 'uniform'
        elif strategy == 1:
            k = 1 + ch.draw(3, 'n-preemptions')
            points = []
            for _ in range(k):
                cands = [t for t in range(nthreads) if write_points[t]]
                t = cands[ch.draw(len(cands), 'preempt-thread')]
                wp = write_points[t][ch.draw(len(write_points[t]), 'write-point')]
                r = radii[ch.draw(4, 'radius')]
                s = max(1, wp - r + ch.draw(2 * r + 1, 'offset'))
                points.append((t, s, ch.draw(nthreads - 1, 'preempt-target')))
            # the thread that starts is one that will be pre-empted: otherwise the starter runs to
            # completion undisturbed and the schedule is sequential
            first = points[0][0] if not brim else first
            policy = LocalPreempt(first, points, ch.draw(nthreads, 'finish-order'))
            sname = 'window'
        elif strategy == 2:
            total = max(2, sum(solo_len))
            d = ch.draw(3, 'pct-depth')
            prios = [ch.draw(1000, 'prio') for _ in range(nthreads)]
            change = [1 + ch.draw(total, 'change-point') for _ in range(d)]
            policy = PCT(prios, change)
            points = change
            sname = 'pct'
        elif strategy == 3:
            maxgap = [3, 20, 200][ch.draw(3, 'walk-gap')]
            policy = RandomWalk(ch, maxgap, first)
            points = maxgap
            sname = 'walk'
        elif strategy == 4:
            one_in = [1, 2, 3, 6, 10, 30][ch.draw(6, 'access-one-in')]
            policy = AccessWalk(ch, access_line_map(), one_in, first)
            points = one_in
            sname = 'access'
        else:
            cand = sorted(set(write_points[0]) | set(sut_write_points[0]))
            if len(cand) > 24:
                # too many to try them all: an evenly spaced selection starting at a drawn phase
                step_ = len(cand) / 24.0
                ph = ch.draw(max(1, int(step_)), 'sweep-phase')
                cand = [cand[min(len(cand) - 1, int(i * step_) + ph)] for i in range(24)]
            sweep = [(st, off) for st in cand for off in (0, 1)] or [(1, 0)]
            policy = None
            points = len(sweep)
            sname = 'sweep'
        res.counters['strategy:' + sname] += 1
        res.counters['threads:%d' % nthreads] += 1
        if npre and not brim:
            cap = observed_capacity()
            if cap is not None and ch.chance(2, 3, 'fill-to-capacity'):
                # a bounded cache was seen to evict / flush at `cap` retrievals: start the race
                # with it full or a few entries short of full
                npre = max(1, cap - 1 - ch.draw(6, 'short-of-capacity'))
                res.counters['runs_filling_a_cache_to_capacity'] += 1
            prefill(npre)
            res.counters['runs_with_prehistory'] += 1
            res.counters['prehistory_retrievals'] += npre

        def execute(policy):
            """One multi-thread execution on a fresh world under `policy`; True if it violated."""
            w = worlds.build(spec)
            try:
                # stable names are assigned before anything is retrieved, exactly as for the twin
                objects = snapshot.closure(w)
                if warm_own:
                    # the process has looked at these very objects before: thread 0's subjects are
                    # retrieved once, sequentially, before the race (hit paths of whatever is cached)
                    for entry, label in programs[0]:
                        try:
                            call_entry('sigtools.signature', w.subject(label))
                        except Exception:
                            pass
                    res.counters['runs_with_own_subjects_retrieved_before'] += 1
                if brim:
                    res.counters['brim_fill_retrievals'] += fill_to_brim()
                snap = snapshot.Snapshot(objects)
                names = snap.names()
                fp0 = world_fp(snap, objects)
                outcomes = [[None] * len(p) for p in programs]
                overlap = [0]
                modified_switch = [0]
                nsw = [0]

                def make_prog(t):
                    def body(s, i):
                        for c, (entry, label) in enumerate(programs[t]):
                            s.in_call[i] = True
                            outcomes[t][c] = run_call(entry, w, label, names)
                            s.in_call[i] = False
                    return body

                def on_switch(s, cur, nxt, code, line):
                    nsw[0] += 1
                    if s.in_call[cur] and (s.in_call[nxt] or not s.started[nxt]):
                        overlap[0] += 1
                    if nsw[0] <= 6 and world_fp(snap, objects) != fp0:
                        modified_switch[0] += 1

                s = sched.Scheduler([make_prog(t) for t in range(nthreads)], policy,
                                    step_cap=cfg.get('step_cap', 400000), inspect_lines=inspect_lines,
                                    on_switch=on_switch, fine=fine)
                try:
                    s.run(timeout=cfg.get('sched_timeout', 120))
                except sched.Deadlock as e:
                    raise HarnessError(str(e))
                if s.errors:
                    raise HarnessError('thread program crashed: {0}'.format(s.errors))
                res.evals += 1
                res.steps += s.step
                if s.capped:
                    res.capped += 1
                switches = [t for t in s.trace if t[3] != '<finished>']
                res.counters['switches'] += len(switches)
                if overlap[0]:
                    res.counters['probe:switch_between_two_overlapping_retrievals'] += 1
                if modified_switch[0]:
                    res.counters['probe:switch_while_shared_state_differs_from_initial'] += 1
                sig = tuple((a, cn, ln, b) for (_st, a, b, cn, ln) in switches)
                res.key(tpl, tuple(tuple(p) for p in programs), sig, nontrivial=bool(overlap[0]))
                for (_st, a, b, cn, ln) in switches[:4]:
                    res.counters['stopped_in:' + cn] += 1   # where the first pre-empted threads were parked
                res.event('trace', s.trace, snapshot.freeze(outcomes))
                trace_txt = ['step {0}: T{1}->T{2} at {3}:{4}'.format(*t) for t in s.trace[:12]]
                res.sample = dict(template=tpl, params=spec['params'], programs=programs, strategy=sname,
                                  schedule=trace_txt, steps=s.step,
                                  outcomes=[[(o[1]['str'] if o and o[0] == 'ok' else o) for o in t] for t in outcomes])

                def viol(clause, symptom, detail):
                    res.violations.append(Violation(PROP, clause, tpl, symptom, detail=detail,
                                                    extra=dict(programs=programs, strategy=sname, schedule=trace_txt)))
                # Q1
                for t in range(nthreads):
                    for c, (entry, label) in enumerate(programs[t]):
                        got, exp = outcomes[t][c], expected[t][c]
                        if snapshot.freeze(got) != snapshot.freeze(exp):
                            kind = 'exception' if got and got[0] == 'exc' else (
                                'signature' if got and got[0] == 'ok' and exp[0] == 'ok' and got[1]['str'] != exp[1]['str']
                                else ('instance' if got and exp and got[:2] == exp[:2] else 'provenance'))
                            viol('Q1', '{0}: wrong {1} under interleaving'.format(entry, kind),
                                 'T{0} call {1} {2}({3}): alone={4} interleaved={5}; schedule={6}'.format(
                                     t, c, entry, label, _short(exp), _short(got), trace_txt))
                            return True
                # Q2
                d = snap.diff()
                lost = [x for x in d if x[2] == 'removed' and x[1] in ('__wrapped__', '__signature__')]
                if lost:
                    viol('Q2', 'attribute lost at quiescence: ' + ','.join(sorted(set(x[1] for x in lost))),
                         'diff={0}; schedule={1}'.format(d[:6], trace_txt))
                    return True
                if d:
                    res.counters['quiescent_diff_other_than_lost_attribute'] += 1
                gp = snapshot.guard_probe(objects)
                if gp:
                    viol('Q2', 'recursion guard stuck at quiescence', repr(gp[:4]))
                    return True
                entry, label = programs[0][0]
                after = run_call(entry, w, label, names)
                if snapshot.freeze(after) != snapshot.freeze(expected[0][0]):
                    viol('Q2', 'solo retrieval after quiescence differs from baseline',
                         '{0}({1}): alone={2} after={3}; schedule={4}'.format(
                             entry, label, _short(expected[0][0]), _short(after), trace_txt))
            finally:
                w.teardown()
            return False

        if sweep is None:
            execute(policy)
        else:
            # every candidate point of thread 0, each as the single pre-emption of its own
            # execution on a fresh world (process state put back in between)
            from sim import sutstate as _sut1
            for n_exec, (st, off) in enumerate(sweep):
                if n_exec:
                    _sut1.restore()
                    if cold:
                        _sut1.restore_import()
                if execute(LocalPreempt(0, [(0, max(1, st + off), 0)], 0)):
                    break
            res.counters['sweep_executions'] += n_exec + 1
        return res

    def describe(self, choices, cfg):
        from sim.runner import run_one
        res = run_one(self, cfg, replay=choices)
        return dict(sample=res.sample, violations=[v.to_json() for v in res.violations])


def _short(out):
    if out and out[0] == 'ok':
        return out[1]['str']
    return out


def setup(tier):
    thorough = tier == 'thorough'
    drivers = {'sched': C17Sched()}
    cfgs = {'sched': dict(name='sched', templates=TEMPLATES, max_forged=2 if thorough else 1,
                          max_depth=3 if thorough else 2, three_threads=3 if thorough else 1,
                          extra_yield=3 if thorough else 1, extra_yield_kinds=[1, 2, 3] if thorough else [2], fine=2 if thorough else 1, prehistory=1, chunk=40, run_timeout=300, chunk_timeout=1200)}
    return drivers, cfgs


def check(tier, budget=None, minimise=True):
    import time
    from sim import runner
    t0 = time.time()
    if budget is None:
        budget = 900.0 if tier == 'thorough' else 75.0
    drivers, cfgs = setup(tier)
    runner.warmup()
    t = runner.run_batch(drivers['sched'], cfgs['sched'], tier, budget_s=budget, label='sched')
    print('[C17 sched] runs={0} schedules={1} line-steps={2} distinct={3} violations={4} harness_errors={5} wall={6:.1f}s'.format(
        t.runs, t.evals, t.steps, len(t.distinct), len(t.violations), len(t.harness_errors), t.wall_s))
    code, nviol, known = runner.report(drivers, cfgs, tier, [('sched', t)], do_minimise=minimise)
    wall = time.time() - t0
    coverage = dict(
        evaluations=t.evals,
        distinct_nontrivial=len(t.distinct),
        rule=('one evaluation = one complete multi-thread execution of drawn thread programs (1-2 retrieval calls '
              'each, on the same or related objects of a drawn world) under one drawn schedule; distinct = distinct '
              '(template, thread programs, switch signature) where the switch signature is the sequence of (from '
              'thread, code:line at which it was stopped, to thread); non-trivial = at least one switch happened '
              'while the pre-empted thread was inside a retrieval and the thread switched to was inside (or about '
              'to start) its own, i.e. two retrievals really overlapped.'),
        samples=t.samples[:5],
        exhaustive=False,
        distinct_switch_signatures_all=len(t.distinct_all),
        runs_per_hour=int(t.runs / max(wall, 1e-6) * 3600),
        logical_steps=t.steps,
        logical_steps_note='simulated time = yield points passed under the scheduler: sigtools line events, plus (per run, as drawn) returns of calls made from sigtools lines and lines of weakref.py / inspect.py',
        counters=dict(sorted(t.counters.items())),
        capped_runs=t.capped,
        known_findings_reported=known,
        harness_errors=len(t.harness_errors),
        real_components=['sigtools (current /repo tree)', 'inspect', 'functools', 'linecache', 'ast', 'weakref',
                         'OS threads (threading/_thread)'],
        stubs=['who runs next (baton scheduler; GIL switching decides nothing)',
               'file contents behind linecache (generated in-memory modules)'],
        seeds=dict(verif_seed=runner.verif_seed(),
                   derivation='run_seed = sha256(VERIF_SEED, property, batch, tier, run index)[:8]'),
    )
    assumptions = [
        'pre-emption at line granularity inside sigtools code (optionally inspect.py in the thorough tier); in 1/4 (quick) / 1/2 (thorough) of the runs also inside a line wherever a call made from sigtools code has just returned (PY_RETURN/C_RETURN/C_RAISE), which together with function entry and backward jumps is where CPython 3.12 honours the eval breaker; a switch between two bytecodes with no call in between cannot happen under the GIL and is not explored',
        'only retrievals run concurrently (no decorating while retrieving)',
        'CPython with the GIL; automatic GC off during a run',
    ]
    if t.evals < 1 or len(t.distinct) < 2:
        print('HARNESS-ERROR insufficient reach: evaluations={0} distinct={1}'.format(t.evals, len(t.distinct)))
        code = code or 2
    runner.write_evidence(PROP, tier, 'exploration', coverage, assumptions, wall, nviol)
    print('[C17] tier={0} exit={1} wall={2:.1f}s'.format(tier, code, wall))
    return code
