#!/venv/bin/python
"""Single entry point.

    check.py <C07|C16|C17|C18> [--tier quick|thorough] [--budget S] [--replay FILE]
    check.py selftest determinism [--n N]

exit 0: the property held on everything explored (KNOWN-FINDING lines may be printed)
exit 1: `VIOLATION property=<id> replay=<path>` printed
exit 2: HARNESS-ERROR (never a pass, never a finding)
"""

import os
import sys
import json
import time
import argparse

HERE = os.path.dirname(os.path.abspath(__file__))
if HERE not in sys.path:
    sys.path.insert(0, HERE)

from sim import runner          # noqa: E402


def main(argv=None):
    ap = argparse.ArgumentParser()
    ap.add_argument('what')
    ap.add_argument('sub', nargs='?')
    ap.add_argument('--tier', default=os.environ.get('VERIF_TIER') or 'quick', choices=['quick', 'thorough'])
    ap.add_argument('--budget', type=float, default=None, help='seconds of search (scales every sub-batch)')
    ap.add_argument('--replay', default=None)
    ap.add_argument('--n', type=int, default=None)
    ap.add_argument('--no-minimise', action='store_true')
    args = ap.parse_args(argv)

    runner.reexec_with_hashseed()
    runner.bootstrap()

    if args.what == 'selftest':
        from props import selftest
        return selftest.main(args)

    import importlib
    mod = importlib.import_module('props.' + args.what.lower())
    if args.replay:
        return replay(mod, args.replay)
    budget = args.budget
    if budget is None and os.environ.get('VERIF_BUDGET_S'):
        budget = float(os.environ['VERIF_BUDGET_S'])
    return mod.check(args.tier, budget, minimise=not args.no_minimise)


def replay(mod, path):
    with open(path) as f:
        data = json.load(f)
    drivers, cfgs = mod.setup(data.get('tier', 'quick'))
    name = data['cfg'] or data['driver']
    driver, cfg = drivers[name], cfgs[name]
    from sim.runner import run_one, warmup
    warmup(mod)
    want = data['violation_class']
    res = run_one(driver, cfg, replay=data['choices'], timeout=600)
    print('replay of {0}: {1} violation(s)'.format(path, len(res.violations)))
    hit = None
    for v in res.violations:
        print('  clause={0} template={1} symptom={2}'.format(v.clause, v.template, v.symptom))
        if v.detail:
            print('    ' + str(v.detail)[:800])
        if (v.clause, v.template, v.symptom) == (want['clause'], want['template'], want['symptom']):
            hit = v
    print('event-log digest: ' + res.digest())
    if hit is not None:
        print('VIOLATION property={0} replay={1}'.format(data['property'], path))
        return 1
    print('the recorded violation class did not reproduce on this tree')
    return 0


if __name__ == '__main__':
    t0 = time.time()
    try:
        code = main()
    except runner.HarnessError as e:
        print('HARNESS-ERROR {0}'.format(e))
        code = 2
    sys.stdout.flush()
    sys.exit(code)
