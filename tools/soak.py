#!/venv/bin/python
"""Soak: run the quick (or thorough) checks under many VERIF_SEED values against /repo.

    tools/soak.py --seeds 10:30 [--props C16,C17] [--tier quick] [--budget S]

Evidence/replays go to a scratch directory (never /verif/evidence); prints one line
per (seed, property) and every VIOLATION / HARNESS-ERROR line it sees.
"""
import os, sys, argparse, subprocess, tempfile, shutil, time

HERE = os.path.dirname(os.path.dirname(os.path.abspath(__file__)))

def main():
    ap = argparse.ArgumentParser()
    ap.add_argument('--seeds', default='1:6')
    ap.add_argument('--props', default='C07,C16,C17,C18')
    ap.add_argument('--tier', default='quick')
    ap.add_argument('--budget', default=None)
    ap.add_argument('--keep', default=None, help='directory to keep replays of failing runs in')
    a = ap.parse_args()
    lo, hi = [int(x) for x in a.seeds.split(':')]
    bad = 0
    for seed in range(lo, hi):
        for prop in a.props.split(','):
            d = tempfile.mkdtemp(prefix='soak-')
            env = dict(os.environ, VERIF_SEED=str(seed), VERIF_EVIDENCE_DIR=d, VERIF_REPLAY_DIR=os.path.join(d, 'replays'))
            cmd = [sys.executable, os.path.join(HERE, 'check.py'), prop, '--tier', a.tier]
            if a.budget:
                cmd += ['--budget', a.budget]
            t0 = time.time()
            p = subprocess.run(cmd, env=env, stdout=subprocess.PIPE, stderr=subprocess.STDOUT)
            out = p.stdout.decode()
            print('seed={0} {1} exit={2} wall={3:.0f}s'.format(seed, prop, p.returncode, time.time() - t0))
            for l in out.splitlines():
                if l.startswith(('VIOLATION', 'HARNESS-ERROR', '  class:', '  detail:')):
                    print('   ' + l[:700])
            if p.returncode != 0:
                bad += 1
                if a.keep:
                    os.makedirs(a.keep, exist_ok=True)
                    for f in os.listdir(os.path.join(d, 'replays')) if os.path.isdir(os.path.join(d, 'replays')) else []:
                        shutil.copy(os.path.join(d, 'replays', f), a.keep)
            shutil.rmtree(d, ignore_errors=True)
            sys.stdout.flush()
    print('soak done: {0} non-zero exits'.format(bad))
    return 1 if bad else 0

if __name__ == '__main__':
    sys.exit(main())
