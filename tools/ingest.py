#!/venv/bin/python
"""Confirm a sub-agent's mutant and file it under /verif/seeded/.

    tools/ingest.py <outdir> <k> <property> <seeded-id> <worktree>

Confirms, in the given scratch worktree of /repo (never /repo itself):
  - the diff applies to the current HEAD,
  - the pinned test suite gives 294 passed with it,
  - the demonstration FAILs with it and PASSes without it,
then copies patch.diff, demo.py, notes.md into /verif/seeded/<seeded-id>/ and writes meta.json.
"""
import os, sys, json, shutil, subprocess, re

HERE = os.path.dirname(os.path.dirname(os.path.abspath(__file__)))


def sh(cmd, cwd=None, env=None, timeout=1200):
    p = subprocess.run(cmd, cwd=cwd, env=env, shell=isinstance(cmd, str), stdout=subprocess.PIPE,
                       stderr=subprocess.STDOUT, timeout=timeout)
    return p.returncode, p.stdout.decode(errors='replace')


def main():
    outdir, k, prop, sid, wt = sys.argv[1:6]
    diff = os.path.join(outdir, 'mutant_%s.diff' % k)
    demo = os.path.join(outdir, 'demo_%s.py' % k)
    notes = os.path.join(outdir, 'notes_%s.md' % k)
    env = dict(os.environ, PYTHONPATH=wt, PYTHONHASHSEED='0')
    sh(['git', '-C', wt, 'checkout', '--', '.'])
    sh(['git', '-C', wt, 'checkout', '-q', '--detach', subprocess.check_output(
        ['git', '-C', '/repo', 'rev-parse', 'HEAD']).decode().strip()])
    ran = []
    rc, out = sh(['/venv/bin/python', demo], cwd=wt, env=env)
    ran.append('demo without change: exit %d' % rc)
    clean_ok = rc == 0
    rc, out = sh(['git', '-C', wt, 'apply', diff])
    if rc != 0:
        print('DIFF DOES NOT APPLY', out)
        return 1
    rc, out = sh('/venv/bin/python -m pytest -q -p no:cacheprovider --timeout=900 --continue-on-collection-errors 2>&1 | tail -1',
                 cwd=wt, env=env)
    m = re.search(r'(\d+) passed', out)
    tests_ok = bool(m) and int(m.group(1)) == 294 and 'failed' not in out and '10 errors' in out
    ran.append('pytest with change: ' + out.strip())
    rc, out2 = sh(['/venv/bin/python', demo], cwd=wt, env=env)
    ran.append('demo with change: exit %d' % rc)
    mut_fails = rc != 0
    sh(['git', '-C', wt, 'checkout', '--', '.'])
    print('clean demo passes:', clean_ok, '| tests unchanged:', tests_ok, '| demo fails with change:', mut_fails)
    if not (clean_ok and tests_ok and mut_fails):
        print('\n'.join(ran))
        print(out2[-1500:])
        return 1
    d = os.path.join(HERE, 'seeded', sid)
    os.makedirs(d, exist_ok=True)
    shutil.copy(diff, os.path.join(d, 'patch.diff'))
    shutil.copy(demo, os.path.join(d, 'demo.py'))
    if os.path.exists(notes):
        shutil.copy(notes, os.path.join(d, 'notes.md'))
    needs = ''
    if os.path.exists(notes):
        needs = open(notes).read()[:1500]
    meta = dict(id=sid, property=prop, origin='fresh sub-agent given only the property text and a scratch worktree',
                needs=needs, confirmed=ran, ran='tools/ingest.py (apply in scratch worktree, pytest, demo both ways); '
                'tools/mutants.py --only ' + sid)
    json.dump(meta, open(os.path.join(d, 'meta.json'), 'w'), indent=1)
    print('filed as', d)
    return 0


if __name__ == '__main__':
    sys.exit(main())
