#!/venv/bin/python
"""Regenerate DESIGN.md section 13 (seeded breakages x checks) from a tools/mutants.py log.

    tools/mutants_table.py <log> [<log> ...]      later logs override earlier lines per (mutant, property)
"""
import os
import re
import sys
import json

HERE = os.path.dirname(os.path.dirname(os.path.abspath(__file__)))
MARK = '## 13. Table: seeded breakages and the check that catches each'


def main():
    rows = {}
    rates = {}
    args = sys.argv[1:]
    if '--rates' in args:
        i = args.index('--rates')
        for line in open(args[i + 1]):
            m = re.match(r'^(\S+)\s.*schedules=(\d+).*violations=(\d+)', line)
            if m:
                rates[m.group(1)] = (int(m.group(3)), int(m.group(2)))
        del args[i:i + 2]
    for log in args:
        for line in open(log):
            m = re.match(r'^(\S+)\s+(C\d\d)\s+(detected|MISSED|harness-error|ERROR|exit \d+)\s*(.*)$', line.rstrip('\n'))
            if m:
                rows[(m.group(1), m.group(2))] = (m.group(3), m.group(4))
    out = [MARK, '',
           'Quick tier, default budget, `--no-minimise`, on a scratch copy of the current tree with the patch applied '
           '(`tools/mutants.py`). "first classes" are the first violation classes printed. For C17 the last column '
           'gives, from a separate quick run that did not stop at the first violation, how many of its executions '
           'violated (violating / all schedules executed): the smaller the number, the more a single quick run '
           'depends on luck.', '',
           '| mutant | breaks | what it is (from meta.json) | check | result | first classes reported | C17: violating executions per quick run |',
           '|---|---|---|---|---|---|---|']
    names = sorted(set(k[0] for k in rows))
    for name in names:
        meta_p = os.path.join(HERE, 'seeded', name, 'meta.json')
        meta = json.load(open(meta_p)) if os.path.exists(meta_p) else {}
        needs = (meta.get('needs') or '').strip().splitlines()
        title = ''
        for l in needs:
            l = l.strip('# ').strip()
            if l:
                title = l
                break
        title = re.sub(r'^Mutant \d+\s*[-–—:]+\s*', '', title)[:150].replace('|', '/')
        for (n, prop), (status, classes) in sorted(rows.items()):
            if n != name:
                continue
            cl = '; '.join(re.sub(r'\s+', ' ', c)[:110] for c in classes.split('; ')[:2]).replace('|', '/')
            rt = rates.get(name) if prop == 'C17' else None
            out.append('| {0} | {1} | {2} | {3} | {4} | {5} | {6} |'.format(
                name, meta.get('property', '?'), title, prop, status, cl,
                '{0} / {1}'.format(*rt) if rt else ''))
    text = '\n'.join(out) + '\n'
    p = os.path.join(HERE, 'DESIGN.md')
    s = open(p).read()
    if MARK in s:
        s = s[:s.index(MARK)].rstrip('\n') + '\n\n' + text
    else:
        s = s.rstrip('\n') + '\n\n---------------------------------------------------------------------------\n\n' + text
    open(p, 'w').write(s)
    nd = sum(1 for v in rows.values() if v[0] == 'detected')
    print('rows', len(rows), 'detected', nd)


if __name__ == '__main__':
    main()
