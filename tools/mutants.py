#!/venv/bin/python
"""Run the registered checks against seeded breakages (sensitivity).

    tools/mutants.py [--budget S] [--props C16,C17] [--only id1,id2] [--patch FILE --prop Cxx]

For every /verif/seeded/<id>/ (patch.diff + meta.json) a scratch copy of /repo's
working tree is made under a temp dir, the patch is applied there, the quick
check of the property it breaks is run with VERIF_REPO pointing at the copy, and
the copy is removed.  /repo itself is never modified.  Prints one line per
mutant: detected (exit 1 + VIOLATION), missed (exit 0) or error (exit 2).
"""

import os
import sys
import json
import shutil
import argparse
import tempfile
import subprocess

HERE = os.path.dirname(os.path.dirname(os.path.abspath(__file__)))


def scratch_copy(patch):
    d = tempfile.mkdtemp(prefix='sigmut-')
    subprocess.check_call(['git', '-C', '/repo', 'worktree', 'prune'])
    # working tree (not HEAD): checks must follow /repo's current working tree
    shutil.copytree('/repo/sigtools', os.path.join(d, 'sigtools'),
                    ignore=shutil.ignore_patterns('__pycache__'))
    p = subprocess.run(['patch', '-p1', '-s', '-d', d, '-i', os.path.abspath(patch)],
                       stdout=subprocess.PIPE, stderr=subprocess.STDOUT)
    if p.returncode != 0:
        shutil.rmtree(d, ignore_errors=True)
        raise RuntimeError('patch does not apply: ' + p.stdout.decode()[-400:])
    return d


def run_check(prop, repo, budget, extra_env=None):
    env = dict(os.environ)
    env['VERIF_REPO'] = repo
    env['VERIF_EVIDENCE_DIR'] = os.path.join(repo, 'evidence')
    env['VERIF_REPLAY_DIR'] = os.path.join(repo, 'replays')
    if extra_env:
        env.update(extra_env)
    cmd = [sys.executable, os.path.join(HERE, 'check.py'), prop, '--budget', str(budget), '--no-minimise']
    p = subprocess.run(cmd, env=env, stdout=subprocess.PIPE, stderr=subprocess.STDOUT, timeout=3600)
    out = p.stdout.decode()
    classes = [l.strip() for l in out.splitlines() if l.strip().startswith('class:')]
    return p.returncode, classes, out


def main():
    ap = argparse.ArgumentParser()
    ap.add_argument('--budget', type=float, default=None)
    ap.add_argument('--props', default=None)
    ap.add_argument('--only', default=None)
    ap.add_argument('--patch', default=None)
    ap.add_argument('--prop', default=None)
    ap.add_argument('--all-props', action='store_true', help='run every check, not only the one the mutant targets')
    ap.add_argument('--verbose', action='store_true')
    args = ap.parse_args()
    jobs = []
    if args.patch:
        jobs.append((os.path.basename(args.patch), args.patch, args.prop.split(',')))
    else:
        sd = os.path.join(HERE, 'seeded')
        for name in sorted(os.listdir(sd)):
            meta_p = os.path.join(sd, name, 'meta.json')
            if not os.path.exists(meta_p):
                continue
            meta = json.load(open(meta_p))
            if args.only and name not in args.only.split(','):
                continue
            props = [meta['property']] + list(meta.get('also_checked_by', []))
            if args.props and not set(props[:1]) & set(args.props.split(',')):
                continue
            if args.all_props:
                props = ['C07', 'C16', 'C17', 'C18']
            jobs.append((name, os.path.join(sd, name, 'patch.diff'), props))
    results = []
    for name, patch, props in jobs:
        try:
            d = scratch_copy(patch)
        except RuntimeError as e:
            print('{0:28s} ERROR {1}'.format(name, e))
            results.append((name, 'error'))
            continue
        try:
            for prop in props:
                budget = args.budget or {'C07': 40, 'C16': 40, 'C17': 45, 'C18': 40}[prop]
                code, classes, out = run_check(prop, d, budget)
                status = {0: 'MISSED', 1: 'detected', 2: 'harness-error'}.get(code, 'exit %d' % code)
                print('{0:28s} {1} {2:14s} {3}'.format(name, prop, status, '; '.join(c[7:150] for c in classes[:3])))
                if args.verbose:
                    print(out[-3000:])
                results.append((name, prop, status))
                sys.stdout.flush()
        finally:
            shutil.rmtree(d, ignore_errors=True)
    return 0


if __name__ == '__main__':
    sys.exit(main())
