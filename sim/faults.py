"""Crossing-fault injector on sys.monitoring PY_START.

A *crossing* is a Python frame whose code is NOT under the sigtools package
directory being entered while its caller frame IS sigtools code.  Crossings of
one execution are numbered 1..K; a fault makes the callee appear to fail
immediately by raising from the PY_START callback (sys.monitoring stays armed
after a raising callback, unlike sys.settrace).

Crossings made from a ``finally:`` body or an ``__exit__`` method of sigtools
are counted but never used as fault sites (no code can promise to restore state
if the restoring call itself fails); the set is computed from the AST of the
current tree.
"""

import os
import sys
import ast

TOOL_ID = 3         # sys.monitoring.PROFILER_ID + 1 .. any free id 0..5
_mon = sys.monitoring

_state = {
    'pkgdir': None,
    'active': None,
    'excluded_lines': None,
}


class InjectedFault(Exception):
    """Plain Exception subclass used as one of the injected kinds."""


class InjectedBaseFault(BaseException):
    """Stands for KeyboardInterrupt & co delivered inside the callee."""


EXC_KINDS = [
    ('ValueError', ValueError),
    ('TypeError', TypeError),
    ('AttributeError', AttributeError),
    ('OSError', OSError),
    ('SyntaxError', SyntaxError),
    ('KeyError', KeyError),
    ('RecursionError', RecursionError),
    ('InjectedFault', InjectedFault),
    ('InjectedBaseFault', InjectedBaseFault),
]


def sigtools_dir():
    if _state['pkgdir'] is None:
        import sigtools
        _state['pkgdir'] = os.path.dirname(os.path.abspath(sigtools.__file__)) + os.sep
    return _state['pkgdir']


def is_sigtools_file(fn):
    d = sigtools_dir()
    return fn.startswith(d) and not fn.startswith(d + 'tests' + os.sep)


def excluded_lines():
    """{filename: set(lines)} inside finally bodies / __exit__ methods of sigtools."""
    if _state['excluded_lines'] is not None:
        return _state['excluded_lines']
    out = {}
    d = sigtools_dir()
    for fn in sorted(os.listdir(d)):
        if not fn.endswith('.py'):
            continue
        path = d + fn
        try:
            tree = ast.parse(open(path).read(), path)
        except SyntaxError:
            continue
        lines = set()
        for node in ast.walk(tree):
            if isinstance(node, ast.Try) or (hasattr(ast, 'TryStar') and isinstance(node, getattr(ast, 'TryStar'))):
                for stmt in node.finalbody:
                    for sub in ast.walk(stmt):
                        if hasattr(sub, 'lineno'):
                            lines.update(range(sub.lineno, getattr(sub, 'end_lineno', sub.lineno) + 1))
            if isinstance(node, (ast.FunctionDef, ast.AsyncFunctionDef)) and node.name in ('__exit__', '__aexit__'):
                lines.update(range(node.lineno, node.end_lineno + 1))
        out[path] = lines
    _state['excluded_lines'] = out
    return out


class Injector(object):
    """Counts crossings; raises at the armed numbers.

    faults: {crossing number: exception class}.  Records, per crossing, the
    site (caller code name:line -> callee module.function)."""

    def __init__(self, faults=None, record_sites=False, probe=None):
        self.faults = dict(faults or {})
        self.count = 0
        self.fired = []
        self.sites = [] if record_sites else None
        self.excluded = 0
        self.excluded_sites = set()
        self.skipped_excluded_fault = 0
        self.probe = probe          # callable() evaluated when a fault fires (e.g. window open?)
        self.probe_hits = []
        self._excl = excluded_lines()
        self.enabled = False

    # -- monitoring callback -------------------------------------------------
    def _py_start(self, code, offset):
        fn = code.co_filename
        if is_sigtools_file(fn):
            return _mon.DISABLE
        if not self.enabled:
            return None
        frame = sys._getframe(2)     # 0: this method, 1: _dispatch, 2: the callee being entered
        caller = frame.f_back
        if caller is None:
            return None
        cfn = caller.f_code.co_filename
        if not is_sigtools_file(cfn):
            return None
        self.count += 1
        k = self.count
        excluded = caller.f_lineno in self._excl.get(cfn, ())
        if excluded:
            self.excluded += 1
            self.excluded_sites.add('{0}:{1}'.format(caller.f_code.co_name, caller.f_lineno))
        if self.sites is not None:
            self.sites.append(('{0}:{1}'.format(caller.f_code.co_name, caller.f_lineno),
                               '{0}.{1}'.format(os.path.basename(fn).replace('.py', ''), code.co_name),
                               excluded))
        exc = self.faults.get(k)
        if exc is not None:
            if excluded:
                self.skipped_excluded_fault += 1
                return None
            self.fired.append(k)
            if self.probe is not None:
                self.enabled = False
                try:
                    self.probe_hits.append(self.probe())
                finally:
                    self.enabled = True
            raise exc('injected at crossing {0}'.format(k))
        return None

    def __enter__(self):
        if _state['active'] is not None:
            raise RuntimeError('injector already active')
        install()
        _state['active'] = self
        self.enabled = True
        return self

    def __exit__(self, *exc):
        self.enabled = False
        _state['active'] = None
        return False


def _dispatch(code, offset):
    inj = _state['active']
    if inj is None:
        if is_sigtools_file(code.co_filename):
            return _mon.DISABLE
        return None
    return inj._py_start(code, offset)


_installed = [False]


def install():
    """Arm PY_START monitoring once per process (kept armed; the active
    injector, if any, receives the events)."""
    if _installed[0]:
        return
    _mon.use_tool_id(TOOL_ID, 'verif-faults')
    _mon.register_callback(TOOL_ID, _mon.events.PY_START, _dispatch)
    _mon.set_events(TOOL_ID, _mon.events.PY_START)
    _installed[0] = True


def uninstall():
    if not _installed[0]:
        return
    _mon.set_events(TOOL_ID, 0)
    _mon.register_callback(TOOL_ID, _mon.events.PY_START, None)
    _mon.free_tool_id(TOOL_ID)
    _installed[0] = False


import atexit
atexit.register(uninstall)
