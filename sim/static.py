"""Static map of the sigtools source lines that touch state which outlives one call.

Computed from the AST of the *current* tree (nothing is hard-coded), once per process:

  write lines   statements, outside __init__/__new__, that
                  - assign / augment / delete an attribute   (self.x = ..., del obj.y)
                  - assign / delete a subscript of an attribute or of a module global
                                                              (self.insts[k] = v, del _cache[k])
                  - call a mutating method on an attribute or on a module global
                                                              (self.guard.add(o), _stack.pop())
                  - rebind a module global declared `global`
  read lines    lines that load an attribute whose name is written somewhere by a write line,
                or a module global that a write line mutates / rebinds

A thread parked at such a line is in the middle of a check-then-act, a multi-field publish or
an iteration over something another thread may change: these are the places the access-biased
schedule strategy of C17 switches at.  Reads matter as much as writes (the hit path of a
cache never writes).
"""

import os
import ast

from sim import faults

MUTATORS = {'add', 'discard', 'remove', 'append', 'extend', 'insert', 'pop', 'popitem', 'clear',
            'update', 'setdefault', 'sort', 'reverse', 'appendleft', 'popleft', 'move_to_end',
            '__setitem__', '__delitem__'}

_cache = [None]


def _module_globals(tree):
    names = set()
    for node in tree.body:
        if isinstance(node, (ast.Assign, ast.AnnAssign, ast.AugAssign)):
            targets = node.targets if isinstance(node, ast.Assign) else [node.target]
            for t in targets:
                for n in ast.walk(t):
                    if isinstance(n, ast.Name):
                        names.add(n.id)
    return names


def _locals_of(fn):
    out = set(a.arg for a in fn.args.args + fn.args.kwonlyargs + getattr(fn.args, 'posonlyargs', []))
    if fn.args.vararg:
        out.add(fn.args.vararg.arg)
    if fn.args.kwarg:
        out.add(fn.args.kwarg.arg)
    declared_global = set()
    for n in ast.walk(fn):
        if isinstance(n, ast.Global):
            declared_global.update(n.names)
        elif isinstance(n, ast.Name) and isinstance(n.ctx, (ast.Store, ast.Del)):
            out.add(n.id)
    return out - declared_global, declared_global


def interesting_lines():
    """{filename: set(lines)}"""
    if _cache[0] is not None:
        return _cache[0]
    d = faults.sigtools_dir()
    trees = {}
    for fn in sorted(os.listdir(d)):
        if fn.endswith('.py'):
            try:
                trees[d + fn] = ast.parse(open(d + fn).read(), d + fn)
            except (OSError, SyntaxError):
                pass
    write_lines = {}
    written_attrs = set()
    written_globals = {}
    for path, tree in trees.items():
        mg = _module_globals(tree)
        wl = write_lines.setdefault(path, set())
        wg = written_globals.setdefault(path, set())
        # methods of helper classes whose instances live for one call only (AST visitors, mergers,
        # namespaces) write attributes all the time, on objects no other thread can see.  What
        # can be shared are descriptors and callable wrappers -- classes defining __get__ or
        # __call__, which end up stored on user classes and functions -- and whatever
        # module-level functions write on the objects they are handed.
        helper_methods = set()
        for cls in ast.walk(tree):
            if isinstance(cls, ast.ClassDef):
                meths = [n for n in cls.body if isinstance(n, (ast.FunctionDef, ast.AsyncFunctionDef))]
                if not any(m.name in ('__get__', '__call__') for m in meths):
                    for m in meths:
                        for sub in ast.walk(m):
                            if isinstance(sub, (ast.FunctionDef, ast.AsyncFunctionDef)):
                                helper_methods.add(id(sub))
        for fn in ast.walk(tree):
            if not isinstance(fn, (ast.FunctionDef, ast.AsyncFunctionDef)) or fn.name in ('__init__', '__new__'):
                continue
            local, declared_global = _locals_of(fn)
            in_helper = id(fn) in helper_methods

            def is_shared(expr):
                """attribute of anything, or a module global that is not shadowed locally"""
                if isinstance(expr, ast.Attribute):
                    return not in_helper
                if isinstance(expr, ast.Name):
                    return (expr.id in mg and expr.id not in local) or expr.id in declared_global
                return False

            def note(expr):
                if isinstance(expr, ast.Attribute):
                    written_attrs.add(expr.attr)
                elif isinstance(expr, ast.Name):
                    wg.add(expr.id)

            for node in ast.walk(fn):
                targets = []
                if isinstance(node, ast.Assign):
                    targets = node.targets
                elif isinstance(node, (ast.AugAssign, ast.AnnAssign)):
                    targets = [node.target]
                elif isinstance(node, ast.Delete):
                    targets = node.targets
                for t in targets:
                    for sub in ([t] if not isinstance(t, (ast.Tuple, ast.List)) else t.elts):
                        if isinstance(sub, ast.Attribute):
                            if in_helper:
                                continue
                            wl.add(node.lineno)
                            written_attrs.add(sub.attr)
                        elif isinstance(sub, ast.Subscript) and is_shared(sub.value):
                            wl.add(node.lineno)
                            note(sub.value)
                        elif isinstance(sub, ast.Name) and sub.id in declared_global:
                            wl.add(node.lineno)
                            wg.add(sub.id)
                if isinstance(node, ast.Call) and isinstance(node.func, ast.Attribute) \
                        and node.func.attr in MUTATORS and is_shared(node.func.value):
                    wl.add(node.lineno)
                    note(node.func.value)
    # attribute names every object has are useless as "shared state"
    written_attrs -= {'__doc__', '__name__', '__module__', '__qualname__', '__dict__'}
    out = {}
    for path, tree in trees.items():
        lines = set(write_lines.get(path, ()))
        wg = written_globals.get(path, set())
        for node in ast.walk(tree):
            if isinstance(node, ast.Attribute) and node.attr in written_attrs:
                lines.add(node.lineno)
            elif isinstance(node, ast.Name) and node.id in wg:
                lines.add(node.lineno)
        # module-level statements execute at import only
        body_lines = set()
        for fn in ast.walk(tree):
            if isinstance(fn, (ast.FunctionDef, ast.AsyncFunctionDef)):
                body_lines.update(range(fn.lineno, fn.end_lineno + 1))
        lines &= body_lines
        if lines:
            out[path] = lines
    _cache[0] = out
    return out
