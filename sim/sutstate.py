"""Process-level state of the system under test, reset before every run.

A run must be a pure function of (code, choice list).  sigtools as given keeps no
process-wide state (only the per-thread guard and discovery stack, empty between
retrievals), but a change to it may well add some -- a memo, a bounded cache, a
"last looked-up" pair of module globals.  Such state would make run N depend on
runs 1..N-1 executed by the same worker, so a violation would not replay from its
choice list.  Instead of hoping, the harness treats that state as part of the
simulated process: it is captured once after warm-up and put back before every
run, exactly as if the process had been restarted (with the same warm-up) for
each run.  What a run then does to it -- fill a cache, evict under a race -- is
inside the run and replays.

Scope (two levels below each sigtools module, tests excluded):
  * module globals: rebinding is undone, names added are removed;
  * containers bound to module globals (dict/list/set/OrderedDict/deque/weak
    containers/threading.local): content is put back;
  * classes and module-level instances of classes defined in sigtools (eg. the
    `as_forged` singleton): the same for their own attributes.
Weak containers are emptied at capture time and restored to empty (holding their
keys alive in a baseline copy would change what the GC can reclaim).
"""

import sys
import types
import weakref
import threading
import collections

_WEAK = (weakref.WeakKeyDictionary, weakref.WeakValueDictionary, weakref.WeakSet)
_STRONG = (dict, list, set, collections.deque)

_baseline = [None]


def _modules():
    out = []
    for name in sorted(sys.modules):
        m = sys.modules[name]
        if m is None or not (name == 'sigtools' or name.startswith('sigtools.')):
            continue
        if name.startswith('sigtools.tests'):
            continue
        out.append((name, m))
    return out


def _is_container(v):
    return isinstance(v, _STRONG + _WEAK + (threading.local,))


def _content(v, keep_weak=False):
    if isinstance(v, _WEAK):
        if not keep_weak:
            return None
        if isinstance(v, weakref.WeakSet):
            return ('weakset', list(v))
        return ('weakmap', list(v.items()))
    if isinstance(v, threading.local):
        # the calling (main) thread's view; containers in it one level deep
        return dict((k, (x, _content(x) if isinstance(x, _STRONG) else None)) for k, x in v.__dict__.items())
    if isinstance(v, dict):       # incl. OrderedDict, defaultdict
        return list(v.items())
    return list(v)


def _put_back(v, content):
    """True if something had to be changed."""
    if isinstance(v, _WEAK):
        if content is None:
            if len(v):
                v.clear()
                return True
            return False
        v.clear()
        if content[0] == 'weakset':
            for x in content[1]:
                v.add(x)
        else:
            for k, x in content[1]:
                v[k] = x
        return True
    if isinstance(v, threading.local):
        d = v.__dict__
        ch = False
        if set(d) != set(content) or any(d[k] is not content[k][0] for k in d):
            d.clear()
            d.update((k, x) for k, (x, _c) in content.items())
            ch = True
        for k, (x, c) in content.items():
            if c is not None and _put_back(x, c):
                ch = True
        return ch
    if isinstance(v, dict):
        cur = list(v.items())
        if len(cur) == len(content) and all(a[0] is b[0] and a[1] is b[1] for a, b in zip(cur, content)):
            return False
        v.clear()
        for k, x in content:
            v[k] = x
        return True
    cur = list(v)
    if len(cur) == len(content) and all(a is b for a, b in zip(cur, content)):
        return False
    if isinstance(v, set):
        v.clear()
        v.update(content)
    elif isinstance(v, collections.deque):
        v.clear()
        v.extend(content)
    else:
        v[:] = content
    return True


def _namespace_of(owner):
    if isinstance(owner, types.ModuleType):
        return owner.__dict__
    if isinstance(owner, type):
        return dict(type.__getattribute__(owner, '__dict__'))
    try:
        d = object.__getattribute__(owner, '__dict__')
    except AttributeError:
        return None
    return d if isinstance(d, dict) else None


def _skip_name(k):
    return k.startswith('__') and k.endswith('__') and k not in ('__signature__', '__wrapped__')


def capture(baseline=True):
    """Record the state of every sigtools module as it is now.  baseline=True (after warm-up):
    weak containers are emptied and the record becomes what restore() puts back.
    baseline=False: a temporary record of the current state, weak content included."""
    levels = []         # (owner, {name: value}, {name: (container, content)})
    seen = set()

    def level(owner, depth):
        if id(owner) in seen:
            return
        seen.add(id(owner))
        ns = _namespace_of(owner)
        if ns is None:
            return
        values, contents = {}, {}
        for k in list(ns):
            if _skip_name(k):
                continue
            v = ns[k]
            values[k] = v
            if _is_container(v):
                if isinstance(v, _WEAK) and baseline is True:
                    v.clear()
                contents[k] = (v, _content(v, keep_weak=baseline is False))
        levels.append((owner, values, contents))
        if depth >= 2:
            return
        for k in sorted(values):
            v = values[k]
            if isinstance(v, types.ModuleType) or isinstance(v, (types.FunctionType, types.BuiltinFunctionType)):
                continue
            mod = getattr(v if isinstance(v, type) else type(v), '__module__', None) or ''
            if not (mod == 'sigtools' or mod.startswith('sigtools.')):
                continue
            level(v, depth + 1)

    for name, m in _modules():
        level(m, 0)
    if baseline:
        _limits[0] = sys.getrecursionlimit()
    if baseline == 'import':
        _import_baseline[0] = levels
    elif baseline:
        _baseline[0] = levels
    return levels


_import_baseline = [None]


def restore_import():
    """Put sigtools' process-wide state back to what it was right after import, before
    anything was ever retrieved in this process (captured by the runner before warm-up): the
    next retrieval is the first of the process (lazily built tables, one-time set-up)."""
    if _import_baseline[0] is None:
        return 0
    return restore(_import_baseline[0])


class isolated(object):
    """`with isolated():` -- run something (a twin, a baseline) as if in a freshly started
    process: the current process-wide state is set aside, the post-warm-up state put in its
    place, and afterwards the current state comes back.  What the twin leaves behind is
    discarded, so it can neither warm a cache for the run that is compared with it nor see what
    that run has put there."""

    def __enter__(self):
        if _baseline[0] is None:
            self.saved = None
            return self
        self.saved = capture(baseline=False)
        restore()
        return self

    def __exit__(self, *exc):
        if self.saved is not None:
            restore(self.saved)
        return False


_limits = [None]


def restore(levels=None):
    """Put the captured state back.  Returns the number of things that had changed
    (0 on a tree that keeps no process-wide state)."""
    if levels is None:
        levels = _baseline[0]
    if levels is None:
        return 0
    changed = 0
    # interpreter-wide settings a retrieval might leave altered
    if _limits[0] is not None and sys.getrecursionlimit() != _limits[0]:
        sys.setrecursionlimit(_limits[0])
        changed += 1
    for owner, values, contents in levels:
        ns = _namespace_of(owner)
        if ns is None:
            continue
        for k in list(ns):
            if _skip_name(k):
                continue
            if k not in values:
                try:
                    delattr(owner, k)
                    changed += 1
                except Exception:
                    pass
        for k, v in values.items():
            if ns.get(k, values) is not v:
                try:
                    setattr(owner, k, v)
                    changed += 1
                except Exception:
                    pass
        for k, (cont, content) in contents.items():
            try:
                if _put_back(cont, content):
                    changed += 1
            except Exception:
                pass
    return changed


_fp_plan = [None]


def fingerprint():
    """Cheap fingerprint of the captured process-wide state: sizes (and first/last element
    identities) of the containers, the number of names per namespace and the identities of the
    data-like values bound there (functions, classes and modules are not watched for rebinding
    here -- restore() still undoes that).  Used to discover *when* a retrieval writes to it."""
    levels = _baseline[0]
    if levels is None:
        return ()
    plan = _fp_plan[0]
    if plan is None or plan[0] is not levels:
        items = []
        for owner, values, contents in levels:
            watch = [k for k, v in values.items()
                     if not isinstance(v, (types.FunctionType, types.BuiltinFunctionType, type, types.ModuleType))
                     and k not in contents]
            if isinstance(owner, type):
                ns = type.__getattribute__(owner, '__dict__')      # live mappingproxy, no copy
            else:
                ns = _namespace_of(owner)
            if ns is None:
                continue
            items.append((ns, tuple(watch), tuple(c for c, _ in contents.values())))
        plan = _fp_plan[0] = (levels, items)
    out = []
    for ns, watch, conts in plan[1]:
        out.append(len(ns))
        for k in watch:
            out.append(id(ns.get(k)))
        for cont in conts:
            try:
                if isinstance(cont, threading.local):
                    for n, x in cont.__dict__.items():
                        out.append(len(x) if isinstance(x, _STRONG) else id(x))
                elif isinstance(cont, dict):
                    n = len(cont)
                    out.append(n)
                    if n:
                        out.append(id(next(iter(cont))))
                        out.append(id(next(reversed(cont))))
                elif isinstance(cont, (list, collections.deque)):
                    n = len(cont)
                    out.append(n)
                    if n:
                        out.append(id(cont[0]))
                        out.append(id(cont[-1]))
                else:
                    out.append(len(cont))
            except Exception:
                out.append(-1)
    return tuple(out)


_access = [None]


def access_lines():
    """{filename: set(line numbers)} of sigtools source lines that mention process-wide state:
    a module global bound to a container or to a data-like value (not a function, class or
    module), or an attribute of that name on a module-level singleton / class.  Found by
    scanning the AST of the current tree for the names recorded in the baseline -- reads as
    well as writes, so that check-then-act sequences can be aimed at from both sides."""
    if _access[0] is not None and _access[0][0] is _baseline[0]:
        return _access[0][1]
    import ast
    levels = _baseline[0] or []
    global_names = {}       # module file -> names
    attr_names = set()
    for owner, values, contents in levels:
        names = set(contents)
        for k, v in values.items():
            if isinstance(v, (types.FunctionType, types.BuiltinFunctionType, type, types.ModuleType)):
                continue
            if isinstance(v, (str, bytes, int, float, tuple, frozenset, bool)) and k.isupper():
                continue        # constants
            if callable(v) and not _is_container(v):
                continue
            names.add(k)
        if isinstance(owner, types.ModuleType):
            fn = getattr(owner, '__file__', None)
            if fn:
                global_names.setdefault(fn, set()).update(names)
        else:
            # attributes of module-level singletons and classes: containers, and data-like values
            # that did not exist / were rebound (a memo slot is written long after __init__)
            attr_names.update(n for n in names if n in contents or (
                not isinstance(owner, type) and not (n.startswith('__') and n.endswith('__'))))
    out = {}
    for name, m in _modules():
        fn = getattr(m, '__file__', None)
        if not fn or not fn.endswith('.py'):
            continue
        try:
            tree = ast.parse(open(fn).read(), fn)
        except (OSError, SyntaxError):
            continue
        gn = global_names.get(fn, set())
        lines = set()
        for node in ast.walk(tree):
            if isinstance(node, ast.Name) and node.id in gn:
                lines.add(node.lineno)
            elif isinstance(node, ast.Attribute) and node.attr in attr_names:
                lines.add(node.lineno)
        if lines:
            out[fn] = lines
    _access[0] = (_baseline[0], out)
    return out


def container_sizes():
    """Sizes of the captured containers, in a fixed order (to watch a cache fill up)."""
    levels = _baseline[0]
    if levels is None:
        return []
    out = []
    for owner, values, contents in levels:
        for k in contents:
            cont = contents[k][0]
            try:
                out.append(len(cont) if not isinstance(cont, threading.local) else len(cont.__dict__))
            except Exception:
                out.append(-1)
    return out


_first_use = [None]


def first_use_state():
    """Does the tree keep process-wide state that the first retrievals of a process set up
    once (a lazily filled table, a flag)?  True when a container or data-like value differs
    between the import-time record and the post-warm-up record (per-thread locals aside).
    False on the tree as given."""
    if _first_use[0] is not None and _first_use[0][0] is _baseline[0]:
        return _first_use[0][1]
    a, b = _import_baseline[0], _baseline[0]
    found = False
    if a is not None and b is not None:
        imp = {}
        for owner, values, contents in a:
            for k, (cont, content) in contents.items():
                if not isinstance(cont, threading.local) and not isinstance(cont, _WEAK):
                    imp[(id(owner), k)] = len(content)
            for k, v in values.items():
                if k not in contents and not isinstance(v, (types.FunctionType, type, types.ModuleType,
                                                             types.BuiltinFunctionType)):
                    imp[(id(owner), k, 'v')] = id(v)
        for owner, values, contents in b:
            for k, (cont, content) in contents.items():
                if isinstance(cont, threading.local) or isinstance(cont, _WEAK):
                    continue
                if imp.get((id(owner), k), len(content)) != len(content):
                    found = True
            for k, v in values.items():
                if k in contents or isinstance(v, (types.FunctionType, type, types.ModuleType,
                                                    types.BuiltinFunctionType)):
                    continue
                if imp.get((id(owner), k, 'v'), id(v)) != id(v):
                    found = True
    _first_use[0] = (_baseline[0], found)
    return found
