"""Seeded baton-passing thread scheduler with line-granular pre-emption.

Real OS threads, exactly one of which holds the baton.  Pre-emption points are
sys.monitoring LINE events in code objects whose file is under the sigtools
package (optionally also inspect.py); every other location returns DISABLE.
Who runs next is decided by a policy fed from the run's choice sequence, so
the interpreter's own switching (GIL, switch interval) decides nothing.
"""

import sys
import _thread
import threading

from sim import faults

TOOL_ID = 4
_mon = sys.monitoring

_active = [None]
_installed = [False]
_inspect_file = [None]


def _extra_files():
    """Files outside sigtools whose lines can be made yield points too: bit 1 inspect.py,
    bit 2 weakref.py (WeakKeyDictionary, the bound-wrapper cache, is Python code)."""
    if _inspect_file[0] is None:
        import inspect
        import weakref
        _inspect_file[0] = {inspect.__file__: 1, weakref.__file__: 2}
    return _inspect_file[0]


def _line(code, line):
    s = _active[0]
    fn = code.co_filename
    if faults.is_sigtools_file(fn):
        if s is None:
            return None
        return s._on_line(code, line)
    bit = _extra_files().get(fn)
    if bit:
        if s is not None and (int(s.inspect_lines) & bit):
            return s._on_line(code, line)
        return None         # never DISABLE these: a later run may instrument them
    return _mon.DISABLE


# -- fine mode: the points inside a line at which CPython 3.12 can really hand over the GIL ------
# The eval breaker is honoured at function entry (RESUME), on backward jumps and after CALL
# instructions.  Entry and backward jumps already produce LINE events; what is missing is "a call
# made from this line has just returned".  PY_RETURN in sigtools code (the callee is about to hand
# its result to a sigtools caller) and C_RETURN / C_RAISE in sigtools code (a builtin, a class or
# any non-Python callable called from a sigtools line has come back) add exactly those.

def _py_return(code, offset, retval):
    s = _active[0]
    if not faults.is_sigtools_file(code.co_filename):
        return _mon.DISABLE
    if s is None or not s.fine:
        return None
    return s._on_line(code, 'ret@{0}'.format(offset))


def _call(code, offset, callable_, arg0):
    # needed only because C_RETURN/C_RAISE are delivered for locations whose CALL event is on
    if not faults.is_sigtools_file(code.co_filename):
        return _mon.DISABLE
    return None


def _c_return(code, offset, callable_, arg0):
    s = _active[0]
    if s is None or not s.fine or not faults.is_sigtools_file(code.co_filename):
        return None
    return s._on_line(code, 'after-call@{0}'.format(offset))


_FINE_EVENTS = None


def install():
    global _FINE_EVENTS
    if _installed[0]:
        return
    ev = _mon.events
    _FINE_EVENTS = ev.PY_RETURN | ev.CALL
    _mon.use_tool_id(TOOL_ID, 'verif-sched')
    _mon.register_callback(TOOL_ID, ev.LINE, _line)
    _mon.register_callback(TOOL_ID, ev.PY_RETURN, _py_return)
    _mon.register_callback(TOOL_ID, ev.CALL, _call)
    _mon.register_callback(TOOL_ID, ev.C_RETURN, _c_return)
    _mon.register_callback(TOOL_ID, ev.C_RAISE, _c_return)
    _mon.set_events(TOOL_ID, ev.LINE)
    _installed[0] = True


def set_fine(on):
    """Fine events are armed only while a fine run executes (they cost ~2x)."""
    ev = _mon.events
    _mon.set_events(TOOL_ID, ev.LINE | (_FINE_EVENTS if on else 0))


def uninstall():
    if not _installed[0]:
        return
    _mon.set_events(TOOL_ID, 0)
    for e in (_mon.events.LINE, _mon.events.PY_RETURN, _mon.events.CALL, _mon.events.C_RETURN,
              _mon.events.C_RAISE):
        _mon.register_callback(TOOL_ID, e, None)
    _mon.free_tool_id(TOOL_ID)
    _installed[0] = False


class Deadlock(Exception):
    pass


class Policy(object):
    """Decides, at every step, which thread runs next.  Subclasses draw from the
    run's Choices only; they never read clocks or hash-ordered containers."""

    def start(self, n):
        return 0

    def at_step(self, sched, cur):
        return cur

    def at_finish(self, sched, cur, live):
        return live[0]


class Scheduler(object):
    def __init__(self, programs, policy, step_cap=400000, inspect_lines=False, on_switch=None, fine=False):
        self.programs = programs
        self.n = len(programs)
        self.policy = policy
        self.step_cap = step_cap
        self.inspect_lines = inspect_lines
        self.fine = fine
        self.on_switch = on_switch
        self.locks = [_thread.allocate_lock() for _ in range(self.n)]
        for l in self.locks:
            l.acquire()
        self.main_lock = _thread.allocate_lock()
        self.main_lock.acquire()
        self.idents = [None] * self.n
        self.current = None
        self.done = [False] * self.n
        self.started = [False] * self.n
        self.local_steps = [0] * self.n
        self.step = 0
        self.capped = False
        self.trace = []             # (global step, from, to, code name, line)
        self.errors = []
        self.in_call = [False] * self.n
        self.cur_code = self.cur_line = None

    # -- called in the running thread ----------------------------------------
    def _on_line(self, code, line):
        cur = self.current
        if cur is None or _thread.get_ident() != self.idents[cur]:
            return None
        self.step += 1
        self.local_steps[cur] += 1
        self.cur_code, self.cur_line = code, line
        if self.step > self.step_cap:
            self.capped = True
            return None
        nxt = self.policy.at_step(self, cur)
        if nxt != cur and not self.done[nxt]:
            self.trace.append((self.step, cur, nxt, code.co_name, line))
            if self.on_switch is not None:
                self.on_switch(self, cur, nxt, code, line)
            self.current = nxt
            self.locks[nxt].release()
            self.locks[cur].acquire()
        return None

    def _body(self, i):
        self.idents[i] = _thread.get_ident()
        self.locks[i].acquire()
        self.started[i] = True
        try:
            self.programs[i](self, i)
        except BaseException as e:     # programs catch their own; this is a harness problem
            self.errors.append((i, repr(e)))
        finally:
            self.done[i] = True
            live = [j for j in range(self.n) if not self.done[j]]
            if live:
                nxt = self.policy.at_finish(self, i, live)
                if nxt not in live:
                    nxt = live[0]
                self.trace.append((self.step, i, nxt, '<finished>', 0))
                self.current = nxt
                self.locks[nxt].release()
            else:
                self.current = None
                self.main_lock.release()

    def run(self, timeout=120):
        install()
        threads = [threading.Thread(target=self._body, args=(i,), daemon=True) for i in range(self.n)]
        _active[0] = self
        if self.fine:
            set_fine(True)
        try:
            for t in threads:
                t.start()
            # wait until every thread has published its ident and is parked
            import time
            t0 = time.time()
            while any(x is None for x in self.idents):
                time.sleep(0.0002)
                if time.time() - t0 > 10:
                    raise Deadlock('threads did not start')
            first = self.policy.start(self.n) % self.n
            self.current = first
            self.locks[first].release()
            if not self.main_lock.acquire(timeout=timeout):
                raise Deadlock('scheduler did not reach quiescence within {0}s (step {1}, current {2})'.format(
                    timeout, self.step, self.current))
            for t in threads:
                t.join(timeout=10)
        finally:
            _active[0] = None
            if self.fine:
                set_fine(False)
        return self


import atexit
atexit.register(uninstall)
