"""Batch runner: warm-up, fork pool, watchdog, evidence counters, reporting.

A *driver* is an object with
    property_id, name
    run(ch, cfg)      -> RunResult      (pure function of the choice list and the code)
    describe(choices, cfg) -> JSON-able rendering of what a choice list decodes to
A run depends only on its run_seed; workers are forked from one warmed-up parent.
"""

import os
import sys
import gc
import json
import time
import signal
import hashlib
import traceback
import faulthandler
import collections
import multiprocessing
from concurrent.futures import ProcessPoolExecutor, wait, FIRST_COMPLETED

from sim.choices import Choices, derive_seed, shrink

VERIF_DIR = os.path.dirname(os.path.dirname(os.path.abspath(__file__)))


class HarnessError(Exception):
    pass


class RunTimeout(Exception):
    pass


class Violation(object):
    """clause: oracle clause id (e.g. 'R1'); template: world template;
    symptom: normalised symptom string (part of the class); detail: free text."""

    def __init__(self, prop, clause, template, symptom, detail=None, choices=None, extra=None):
        self.prop = prop
        self.clause = clause
        self.template = template
        self.symptom = symptom
        self.detail = detail
        self.choices = list(choices) if choices is not None else None
        self.extra = extra or {}

    def klass(self):
        return (self.prop, self.clause, self.template, self.symptom)

    def to_json(self):
        return dict(property=self.prop, clause=self.clause, template=self.template,
                    symptom=self.symptom, detail=self.detail, choices=self.choices, extra=self.extra)

    @classmethod
    def from_json(cls, d):
        return cls(d['property'], d['clause'], d['template'], d['symptom'], d.get('detail'),
                   d.get('choices'), d.get('extra'))


class RunResult(object):
    def __init__(self):
        self.violations = []
        self.evals = 0
        self.steps = 0
        self.counters = collections.Counter()
        self.distinct = set()        # keys of distinct non-trivial cases
        self.distinct_all = set()
        self.sample = None
        self.log = hashlib.sha256()
        self.capped = 0

    def event(self, *parts):
        self.log.update(repr(parts).encode())
        self.log.update(b'\n')

    def digest(self):
        return self.log.hexdigest()

    def key(self, *parts, nontrivial=True):
        h = int.from_bytes(hashlib.sha256(repr(parts).encode()).digest()[:8], 'big')
        self.distinct_all.add(h)
        if nontrivial:
            self.distinct.add(h)

    def compact(self):
        return dict(violations=[v.to_json() for v in self.violations], evals=self.evals,
                    steps=self.steps, counters=dict(self.counters), distinct=self.distinct,
                    distinct_all=self.distinct_all, sample=self.sample, digest=self.digest(),
                    capped=self.capped)


# ---------------------------------------------------------------------------
# bootstrap

def reexec_with_hashseed():
    if os.environ.get('PYTHONHASHSEED') is None:
        env = dict(os.environ)
        env['PYTHONHASHSEED'] = '0'
        os.execve(sys.executable, [sys.executable] + sys.argv, env)


def repo_dir():
    return os.path.abspath(os.environ.get('VERIF_REPO', '/repo'))


def bootstrap():
    """Make sure sigtools is imported from the tree under test, quietly."""
    repo = repo_dir()
    if sys.path[0] != repo:
        sys.path.insert(0, repo)
    if VERIF_DIR not in sys.path:
        sys.path.insert(1, VERIF_DIR)
    import warnings
    warnings.simplefilter('ignore')
    import sigtools
    got = os.path.dirname(os.path.dirname(os.path.abspath(sigtools.__file__)))
    if os.path.realpath(got) != os.path.realpath(repo):
        raise HarnessError('sigtools imported from {0}, expected {1}'.format(got, repo))
    # import every module up front (no lazy import under the scheduler / injector)
    import sigtools.modifiers, sigtools.specifiers, sigtools.signatures     # noqa
    import sigtools.wrappers, sigtools.support, sigtools._autoforwards      # noqa
    try:
        import sigtools.sphinxext                                           # noqa
    except Exception:
        pass
    return sigtools


def verif_seed():
    try:
        return int(os.environ.get('VERIF_SEED', '0'))
    except ValueError:
        return derive_seed(os.environ.get('VERIF_SEED'))


def n_workers():
    try:
        return max(1, int(os.environ.get('VERIF_WORKERS', '0'))) if os.environ.get('VERIF_WORKERS') else \
            max(1, min(16, (os.cpu_count() or 2)))
    except ValueError:
        return 4


# ---------------------------------------------------------------------------
# workers

_DRIVER = [None]
_CFG = [None]


def _alarm(signum, frame):
    raise RunTimeout('run exceeded its wall-clock cap')


def run_one(driver, cfg, seed=None, replay=None, timeout=None):
    """One run in this process; returns RunResult.  Automatic GC is off."""
    ch = Choices(seed=seed, replay=replay)
    gc_was = gc.isenabled()
    gc.disable()
    from sim import sutstate
    restored = sutstate.restore()
    if timeout:
        old = signal.signal(signal.SIGALRM, _alarm)
        signal.alarm(int(timeout))
    try:
        res = driver.run(ch, cfg)
    finally:
        if timeout:
            signal.alarm(0)
            signal.signal(signal.SIGALRM, old)
        if gc_was:
            gc.enable()
    res.choices = ch.recorded
    if restored:
        # process-wide sigtools state left behind by an earlier run was put back (0 on a tree
        # that keeps none)
        res.counters['sut_process_state_restored_before_run'] += 1
    return res


def _worker_chunk(args):
    indices, base = args
    driver, cfg = _DRIVER[0], _CFG[0]
    faulthandler.dump_traceback_later(cfg.get('chunk_timeout', 600), exit=True)
    out = []
    try:
        for idx in indices:
            dl = cfg.get('_deadline')
            if dl and time.time() > dl:
                break
            seed = derive_seed(*(base + (idx,)))
            try:
                if cfg.get('_explicit') is not None:
                    res = run_one(driver, cfg, replay=cfg['_explicit'][idx], timeout=cfg.get('run_timeout', 120))
                else:
                    res = run_one(driver, cfg, seed=seed, timeout=cfg.get('run_timeout', 120))
                c = res.compact()
                c['index'] = idx
                c['seed'] = seed
                if c['violations']:
                    for v in c['violations']:
                        if v.get('choices') is None:
                            v['choices'] = list(res.choices)
                out.append(c)
            except RunTimeout:
                out.append(dict(index=idx, seed=seed, harness_error='timeout in run seed={0}'.format(seed)))
            except Exception:
                out.append(dict(index=idx, seed=seed,
                                harness_error='exception in harness, run seed={0}:\n{1}'.format(
                                    seed, traceback.format_exc())))
            gc.collect()
    finally:
        faulthandler.cancel_dump_traceback_later()
    return out


class Totals(object):
    def __init__(self):
        self.runs = 0
        self.evals = 0
        self.steps = 0
        self.capped = 0
        self.counters = collections.Counter()
        self.distinct = set()
        self.distinct_all = set()
        self.samples = []
        self.violations = []
        self.harness_errors = []
        self.digests = {}

    def add(self, c, keep_samples=6):
        self.runs += 1
        if 'harness_error' in c:
            self.harness_errors.append(c['harness_error'])
            return
        self.evals += c['evals']
        self.steps += c['steps']
        self.capped += c.get('capped', 0)
        self.counters.update(c['counters'])
        self.distinct |= c['distinct']
        self.distinct_all |= c['distinct_all']
        if c['sample'] is not None and len(self.samples) < keep_samples:
            self.samples.append(c['sample'])
        for v in c['violations']:
            v = Violation.from_json(v)
            v.extra.setdefault('run_seed', c['seed'])
            self.violations.append(v)
        self.digests[c['index']] = c['digest']


_known_cache = [None]


def run_batch(driver, cfg, tier, budget_s=None, max_runs=None, workers=None, label=None,
              stop_on_violation=True, progress=True, explicit=None):
    """Seeded search: run indices 0,1,2.. until the budget or max_runs is used up."""
    workers = workers or n_workers()
    base = (verif_seed(), driver.property_id, label or driver.name, tier)
    _DRIVER[0], _CFG[0] = driver, cfg
    cfg['_deadline'] = (time.time() + budget_s) if budget_s else None
    cfg['_explicit'] = explicit      # explicit choice lists (complete sweeps) instead of seeds
    totals = Totals()
    chunk = cfg.get('chunk', 20)
    t0 = time.time()
    deadline = t0 + budget_s if budget_s else None
    next_idx = 0
    ctx = multiprocessing.get_context('fork')
    gc.collect()
    gc.freeze()
    hard_cap = (budget_s or 600) + cfg.get('chunk_timeout', 600) + 60
    with ProcessPoolExecutor(max_workers=workers, mp_context=ctx) as pool:
        pending = set()

        def submit():
            nonlocal next_idx
            if max_runs is not None and next_idx >= max_runs:
                return False
            if deadline is not None and time.time() >= deadline:
                return False
            hi = next_idx + chunk
            if max_runs is not None:
                hi = min(hi, max_runs)
            pending.add(pool.submit(_worker_chunk, (list(range(next_idx, hi)), base)))
            next_idx = hi
            return True

        for _ in range(workers * 2):
            if not submit():
                break
        stop = False
        while pending:
            done, _p = wait(pending, timeout=hard_cap, return_when=FIRST_COMPLETED)
            if not done:
                totals.harness_errors.append('batch watchdog: no chunk completed within {0}s'.format(hard_cap))
                for f in pending:
                    f.cancel()
                break
            for f in done:
                pending.discard(f)
                try:
                    for c in f.result():
                        totals.add(c)
                except Exception as e:
                    totals.harness_errors.append('worker died: {0!r}'.format(e))
                    stop = True
            if totals.violations and stop_on_violation and not os.environ.get('VERIF_NO_STOP'):
                # known findings do not end the search: only a violation nothing lists does
                if _known_cache[0] is None:
                    _known_cache[0] = load_known_findings()
                if any(match_known(v, _known_cache[0]) is None for v in totals.violations):
                    stop = True
            if totals.harness_errors:
                stop = True
            if not stop:
                while len(pending) < workers * 2:
                    if not submit():
                        break
        if stop:
            for f in pending:
                f.cancel()
    gc.unfreeze()
    totals.wall_s = time.time() - t0
    totals.base = base
    return totals


# ---------------------------------------------------------------------------
# known findings, replay files, evidence

def load_known_findings():
    path = os.path.join(VERIF_DIR, 'KNOWN_FINDINGS.json')
    try:
        with open(path) as f:
            data = json.load(f)
    except FileNotFoundError:
        return []
    return data.get('findings', [])


def match_known(v, findings):
    """An *open* finding whose matcher covers this violation class, else None."""
    import re
    for f in findings:
        if f.get('status') != 'open':
            continue
        if f.get('property') != v.prop:
            continue
        m = f.get('match', {})
        ok = True
        for field in ('clause', 'template'):
            if field in m and m[field] != getattr(v, field):
                ok = False
        if 'symptom_regex' in m and not re.search(m['symptom_regex'], v.symptom):
            ok = False
        if 'clause_regex' in m and not re.search(m['clause_regex'], v.clause):
            ok = False
        if 'template_regex' in m and not re.search(m['template_regex'], v.template):
            ok = False
        if 'symptom' in m and m['symptom'] != v.symptom:
            ok = False
        if ok:
            return f
    return None


def class_hash(v):
    return hashlib.sha256(repr(v.klass()).encode()).hexdigest()[:10]


def reproduce(driver, cfg, choices, klass, timeout=120):
    """Does replaying the choice list give a violation of the same class?"""
    try:
        res = run_one(driver, cfg, replay=choices, timeout=timeout)
    except RunTimeout:
        return None
    for v in res.violations:
        if v.klass() == klass:
            return v
    return None


def minimise(driver, cfg, v, max_tries=150):
    klass = v.klass()

    def still(cand):
        return reproduce(driver, cfg, cand, klass) is not None
    if not still(v.choices):
        return None
    return shrink(v.choices, still, max_tries=max_tries)


def write_replay(driver, cfg, tier, v, choices, minimised):
    d = os.environ.get('VERIF_REPLAY_DIR') or os.path.join(VERIF_DIR, 'replays')
    os.makedirs(d, exist_ok=True)
    path = os.path.join(d, '{0}-{1}-{2}.json'.format(v.prop, class_hash(v), v.extra.get('run_seed', 0)))
    try:
        decoded = driver.describe(choices, cfg)
    except Exception:
        decoded = {'error': traceback.format_exc()}
    data = dict(property=v.prop, driver=driver.name, tier=tier, cfg=cfg.get('name'), verif_seed=verif_seed(),
                run_seed=v.extra.get('run_seed'), minimised=minimised,
                choices=list(choices),
                violation_class=dict(clause=v.clause, template=v.template, symptom=v.symptom),
                detail=v.detail, decoded=decoded)
    with open(path, 'w') as f:
        json.dump(data, f, indent=1, default=repr, sort_keys=True)
        f.write('\n')
    return path


MAX_REPORTED = 8
MAX_MINIMISED = 3


def report(driver_by_name, cfg_by_name, tier, totals_list, do_minimise=True):
    """Print KNOWN-FINDING / VIOLATION / HARNESS-ERROR lines.  Returns exit code."""
    findings = load_known_findings()
    exit_code = 0
    harness = []
    seen_classes = set()
    known_printed = set()
    n_viol = 0
    n_more = 0
    for name, totals in totals_list:
        driver, cfg = driver_by_name[name], cfg_by_name[name]
        harness.extend(totals.harness_errors)
        for v in totals.violations:
            k = v.klass()
            if k in seen_classes:
                continue
            seen_classes.add(k)
            f = match_known(v, findings)
            if f is not None:
                if f['id'] not in known_printed:
                    known_printed.add(f['id'])
                    print('KNOWN-FINDING: property={0} {1} [{2}]'.format(v.prop, f['what'], f['id']))
                continue
            if n_viol >= MAX_REPORTED:
                n_more += 1
                exit_code = 1
                continue
            # confirm (fresh world, same process) and minimise
            choices = v.choices
            rep = reproduce(driver, cfg, choices, k)
            if rep is not None:
                rep.extra.update(v.extra)
            if rep is None:
                harness.append('violation did not reproduce from its choice list: {0} (seed {1})'.format(
                    k, v.extra.get('run_seed')))
                continue
            minimised = False
            if do_minimise and n_viol < MAX_MINIMISED:
                small = minimise(driver, cfg, v)
                if small is not None and reproduce(driver, cfg, small, k) is not None:
                    choices, minimised = small, True
                    rep = reproduce(driver, cfg, small, k)
                    rep.extra.update(v.extra)
            path = write_replay(driver, cfg, tier, rep, choices, minimised)
            n_viol += 1
            print('VIOLATION property={0} replay={1}'.format(v.prop, path))
            print('  class: clause={0} template={1} symptom={2}'.format(v.clause, v.template, v.symptom))
            if rep.detail:
                print('  detail: {0}'.format(str(rep.detail)[:600]))
            exit_code = 1
    if n_more:
        print('  (+{0} further distinct violation classes not written out)'.format(n_more))
    for h in harness[:10]:
        print('HARNESS-ERROR {0}'.format(h))
    if harness and exit_code == 0:
        exit_code = 2
    return exit_code, n_viol, sorted(known_printed)


def write_evidence(prop, tier, level, coverage, assumptions, wall_s, violations):
    d = os.environ.get('VERIF_EVIDENCE_DIR') or os.path.join(VERIF_DIR, 'evidence')
    os.makedirs(d, exist_ok=True)
    data = dict(property_id=prop, tier=tier, seed=verif_seed(), level=level, coverage=coverage,
                assumptions=assumptions, wall_s=round(wall_s, 2), violations=violations)
    path = os.path.join(d, prop + '.json')
    tmp = path + '.tmp'
    with open(tmp, 'w') as f:
        json.dump(data, f, indent=1, default=repr, sort_keys=True)
        f.write('\n')
    os.replace(tmp, path)
    return path


# ---------------------------------------------------------------------------
# warm-up: first-use effects (lazy imports, abc caches, inspect caches, warnings
# registry) must not change step/crossing counts between the first and later runs

_warm = [False]


def warmup(mod=None):
    if _warm[0]:
        return
    import inspect
    import sigtools
    from sim import worlds, faults
    # everything the generated worlds / histories import: sys.modules must not grow during the
    # runs (inspect.getmodule walks it, so the number of inspect.py lines executed would depend
    # on what ran before)
    for name in ('unittest.mock', 'dataclasses', 'attr', 'collections.abc', 'contextlib', 'typing', 'builtins',
                 'copy', 'linecache', 'types', 'weakref', 'itertools', 'enum', 'abc', 'tokenize', 'ast'):
        try:
            __import__(name)
        except ImportError:
            pass
    from sim import sutstate as _sut
    _sut.capture(baseline='import')     # before anything is retrieved in this process
    for t in sorted(worlds.TEMPLATES):
        for s in (0, 1, 2):
            ch = Choices(seed=derive_seed('warmup', t, s))
            spec = worlds.TEMPLATES[t](ch)
            try:
                w = worlds.build(spec, uid='warm')
            except Exception:
                continue
            try:
                with faults.Injector():
                    for lab in w.labels():
                        for fn in (sigtools.signature, inspect.signature,
                                   lambda o: sigtools.signature(o, auto=False)):
                            try:
                                fn(w.subject(lab))
                            except Exception:
                                pass
            finally:
                w.teardown()
    if mod is not None and hasattr(mod, 'warmup'):
        mod.warmup()
    gc.collect()
    from sim import sutstate
    sutstate.capture()
    _warm[0] = True
