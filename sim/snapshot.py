"""Snapshots of what retrieval may not modify, and normalised views of results.

Everything here is behavioural: it looks at ``vars(o)``, slots and class
dictionaries, never at sigtools internals (the recursion guard is probed
through its observable effect; its container is only read opportunistically).
"""

import types
import inspect
import functools

_SKIP_TYPES = (types.ModuleType, types.BuiltinFunctionType, type(len), type(dict.get),
               type(object.__init__), type(object().__str__), str, bytes, int, float,
               complex, bool, type(None), tuple, frozenset, types.CodeType,
               inspect.Signature, inspect.Parameter)


def _own_dict(o):
    """The attribute storage of o without triggering descriptors."""
    out = {}
    if isinstance(o, type):
        d = type.__getattribute__(o, '__dict__')
        for k, v in d.items():
            if k in ('__dict__', '__weakref__'):
                continue
            out[k] = v
        return out
    try:
        d = object.__getattribute__(o, '__dict__')
    except AttributeError:
        d = None
    if isinstance(d, dict):
        out.update(d)
    # slots
    for klass in type(o).__mro__:
        slots = klass.__dict__.get('__slots__', ())
        if isinstance(slots, str):
            slots = (slots,)
        for name in slots:
            desc = klass.__dict__.get(name)
            if desc is None or not hasattr(desc, '__get__'):
                continue
            try:
                out['<slot>' + name] = desc.__get__(o, type(o))
            except AttributeError:
                pass
    return out


def in_world(o, modname):
    """Is o an object the world owns (defined in / instance of something in it)?"""
    if isinstance(o, _SKIP_TYPES):
        return False
    if isinstance(o, type):
        return getattr(o, '__module__', None) == modname
    if isinstance(o, (types.FunctionType,)):
        return o.__module__ == modname or o.__code__.co_filename.startswith('<sim:')
    if isinstance(o, types.MethodType):
        return False    # created on the fly; its __func__/__self__ are entered separately
    if isinstance(o, (staticmethod, classmethod, property, functools.partial)):
        return True
    mod = getattr(type(o), '__module__', None)
    if mod == modname:
        return True
    if mod and mod.startswith('sigtools') and not isinstance(o, (inspect.Signature, inspect.Parameter)):
        # sigtools wrapper objects (_PokTranslator, _ForgerWrapper, _Wrapped, Combination...)
        return True
    return False


def closure(world, extra=()):
    """Deterministic BFS from the module namespace and the subjects through
    __wrapped__, __signature__, __dict__ values, __func__/__self__, partial
    fields.  Returns list of (stable name, object)."""
    modname = world.modname
    seen = {}
    order = []
    queue = []

    def push(name, o):
        if id(o) in seen:
            return
        if not in_world(o, modname):
            return
        seen[id(o)] = name
        order.append((name, o))
        queue.append((name, o))

    ns = world.ns
    for k in sorted(ns):
        if k.startswith('__'):
            continue
        push(k, ns[k])
    for name, o in extra:
        if isinstance(o, types.MethodType):
            push(name + '.__func__', o.__func__)
            push(name + '.__self__', o.__self__)
        else:
            push(name, o)
    limit = 400
    while queue and len(order) < limit:
        name, o = queue.pop(0)
        d = _own_dict(o)
        for k in sorted(d, key=str):
            v = d[k]
            if isinstance(v, types.MethodType):
                push('{0}.{1}.__func__'.format(name, k), v.__func__)
                push('{0}.{1}.__self__'.format(name, k), v.__self__)
            elif isinstance(v, (list, tuple)) and len(v) <= 8:
                for i, item in enumerate(v):
                    push('{0}.{1}[{2}]'.format(name, k, i), item)
            else:
                push('{0}.{1}'.format(name, k), v)
        if isinstance(o, (staticmethod, classmethod)):
            push(name + '.__func__', o.__func__)
        if isinstance(o, functools.partial):
            push(name + '.func', o.func)
        if isinstance(o, property):
            for a in ('fget',):
                if getattr(o, a) is not None:
                    push(name + '.' + a, getattr(o, a))
        if isinstance(o, types.FunctionType) and o.__closure__:
            for cname, cell in zip(o.__code__.co_freevars, o.__closure__):
                try:
                    push('{0}.<cell {1}>'.format(name, cname), cell.cell_contents)
                except ValueError:
                    pass
    return order


class Snapshot(object):
    """Attribute names and value identities of every tracked object."""

    def __init__(self, objects):
        self.objects = list(objects)            # [(name, obj)] keeps everything alive
        self.state = []
        self.sigs = []          # (owner name, attribute, signature object, deep state)
        for name, o in self.objects:
            d = _own_dict(o)
            self.state.append((name, o, dict(d)))   # values kept alive too
            for k, v in d.items():
                if isinstance(v, inspect.Signature):
                    try:
                        self.sigs.append((name, str(k), v, sig_state(v)))
                    except Exception:
                        pass

    def names(self):
        return dict((id(o), n) for n, o in self.objects)

    def diff(self):
        """List of (object name, attribute, change) since the snapshot."""
        out = []
        for name, o, before in self.state:
            now = _own_dict(o)
            for k in sorted(set(before) | set(now), key=str):
                if k not in now:
                    out.append((name, str(k), 'removed'))
                elif k not in before:
                    out.append((name, str(k), 'added'))
                elif now[k] is not before[k]:
                    out.append((name, str(k), 'replaced'))
        for name, k, sig, st in self.sigs:
            try:
                c = sig_changed(sig, st)
            except Exception as e:
                c = 'unreadable ({0})'.format(type(e).__name__)
            if c:
                out.append((name, k, 'stored signature object modified: ' + c))
        return out

    def fingerprint(self):
        """Cheap comparable view of the current state (for write-point detection): per object
        the identities of its attribute values, in storage order, slots included."""
        plan = getattr(self, '_fp_plan', None)
        if plan is None:
            plan = []
            for name, o, before in self.state:
                slots = []
                if not isinstance(o, type):
                    for klass in type(o).__mro__:
                        sl = klass.__dict__.get('__slots__', ())
                        if isinstance(sl, str):
                            sl = (sl,)
                        for n in sl:
                            desc = klass.__dict__.get(n)
                            if desc is not None and hasattr(desc, '__get__'):
                                slots.append(desc)
                plan.append((o, isinstance(o, type), tuple(slots)))
            self._fp_plan = plan
        fp = []
        for o, is_type, slots in plan:
            if is_type:
                d = type.__getattribute__(o, '__dict__')
            else:
                try:
                    d = object.__getattribute__(o, '__dict__')
                except AttributeError:
                    d = None
            if d is not None:
                fp.append(tuple(map(id, d.values())))
                fp.append(len(d))
            for desc in slots:
                try:
                    fp.append(id(desc.__get__(o, type(o))))
                except AttributeError:
                    fp.append(0)
        return tuple(fp)


# ---------------------------------------------------------------------------
# deep identity state of signature objects

def sig_state(sig):
    """Deep view of a signature; holds every object so identities stay valid."""
    params = tuple(sig.parameters.values())
    pv = []
    for p in params:
        ps = getattr(p, 'sources', None)
        pd = getattr(p, 'source_depths', None)
        pv.append((p, p.name, p.kind, p.default, p.annotation,
                   ps, tuple(ps) if isinstance(ps, list) else None,
                   pd, tuple(sorted(((id(k), v) for k, v in pd.items()))) if isinstance(pd, dict) else None,
                   getattr(p, 'upgraded_annotation', None)))
    src = getattr(sig, 'sources', None)
    if not isinstance(src, dict):
        src = {}
        has_src = False
    else:
        has_src = True
    lists = {}
    for k, v in src.items():
        if k == '+depths':
            continue
        lists[k] = (v, tuple(v))
    depths = src.get('+depths')
    return dict(has_src=has_src, params=params, pv=pv, src=src, keys=tuple(src.keys()), lists=lists,
                depths=depths, depth_items=tuple(depths.items()) if depths is not None else None,
                ret=sig.return_annotation, uret=getattr(sig, 'upgraded_return_annotation', None))


def _same(a, b):
    return len(a) == len(b) and all(x is y for x, y in zip(a, b))


def sig_changed(sig, st):
    """Describe how sig differs from its state, or None."""
    params = tuple(sig.parameters.values())
    if not _same(params, st['params']):
        return 'parameter tuple changed'
    for p, (p0, name, kind, default, annotation, ps, psv, pd, pdv, ua) in zip(params, st['pv']):
        if p.name != name or p.kind != kind or p.default is not default or p.annotation is not annotation:
            return 'parameter {0} fields changed'.format(name)
        if getattr(p, 'sources', None) is not ps:
            return 'parameter {0}.sources replaced'.format(name)
        if isinstance(ps, list) and not _same(tuple(ps), psv):
            return 'parameter {0}.sources list mutated'.format(name)
        if getattr(p, 'source_depths', None) is not pd:
            return 'parameter {0}.source_depths replaced'.format(name)
        if isinstance(pd, dict) and tuple(sorted(((id(k), v) for k, v in pd.items()))) != pdv:
            return 'parameter {0}.source_depths mutated'.format(name)
        if getattr(p, 'upgraded_annotation', None) is not ua:
            return 'parameter {0}.upgraded_annotation replaced'.format(name)
    if not st['has_src']:
        if isinstance(getattr(sig, 'sources', None), dict) and sig.sources:
            return 'sources map appeared'
        return None
    if sig.sources is not st['src']:
        return 'sources map replaced'
    if tuple(sig.sources.keys()) != st['keys']:
        return 'sources map keys changed'
    for k, (lst, content) in st['lists'].items():
        if sig.sources[k] is not lst:
            return 'sources list replaced'
        if not _same(tuple(lst), content):
            return 'sources list mutated'
    if sig.sources.get('+depths') is not st['depths']:
        return '+depths replaced'
    if st['depths'] is not None:
        items = tuple(st['depths'].items())
        if len(items) != len(st['depth_items']) or any(
                a[0] is not b[0] or a[1] != b[1] for a, b in zip(items, st['depth_items'])):
            return '+depths mutated'
    if sig.return_annotation is not st['ret']:
        return 'return annotation changed'
    if getattr(sig, 'upgraded_return_annotation', None) is not st['uret']:
        return 'upgraded return annotation changed'
    return None



# ---------------------------------------------------------------------------
# normalisation of results

def stable_name(o, names):
    n = names.get(id(o))
    if n is not None:
        return n
    if isinstance(o, types.MethodType):
        return 'method({0}@{1})'.format(stable_name(o.__func__, names), stable_name(o.__self__, names))
    if isinstance(o, functools.partial):
        return 'partial({0})'.format(stable_name(o.func, names))
    q = getattr(o, '__qualname__', None)
    if isinstance(q, str):
        mod = getattr(o, '__module__', '') or ''
        if mod.startswith('simworld_'):
            mod = 'simworld'
        return '{0}:{1}:{2}'.format(type(o).__name__, mod, q)
    w = None
    try:
        w = object.__getattribute__(o, '__dict__').get('__wrapped__')
    except Exception:
        pass
    if w is not None and w is not o:
        return '{0}[{1}]'.format(type(o).__name__, stable_name(w, names))
    return '<{0}>'.format(type(o).__name__)


def _val(v):
    if v is inspect.Parameter.empty:
        return '<empty>'
    if isinstance(v, (int, float, str, bool, type(None), tuple)):
        return repr(v)
    if isinstance(v, type):
        return 'type:' + v.__name__
    return '<{0}>'.format(type(v).__name__)


def norm_sig(sig, names):
    """Value view of a signature: text, per-parameter fields, provenance by
    stable name, depths."""
    params = []
    for p in sig.parameters.values():
        params.append((p.name, int(p.kind), _val(p.default), _val(p.annotation)))
    out = {'str': str(sig), 'params': params, 'ret': _val(sig.return_annotation)}
    src = getattr(sig, 'sources', None)
    if isinstance(src, dict):
        ns = {}
        for k in sorted((k for k in src if k != '+depths'), key=str):
            ns[str(k)] = [stable_name(f, names) for f in src[k]]
        depths = sorted((stable_name(f, names), d) for f, d in src.get('+depths', {}).items())
        out['sources'] = ns
        out['depths'] = depths
    else:
        out['sources'] = None
        out['depths'] = None
    return out


def outcome(fn, names):
    """Run fn(); return ('ok', normalised signature) or ('exc', exception type name)."""
    try:
        r = fn()
    except Exception as e:      # BaseException deliberately not caught
        return ('exc', type(e).__name__)
    if isinstance(r, inspect.Signature):
        return ('ok', norm_sig(r, names))
    return ('val', repr(type(r)))


def freeze(x):
    """Hashable, canonical form of nested dict/list outcome structures."""
    if isinstance(x, dict):
        return tuple((k, freeze(x[k])) for k in sorted(x))
    if isinstance(x, (list, tuple)):
        return tuple(freeze(i) for i in x)
    return x


# ---------------------------------------------------------------------------
# recursion-guard probe (R2)

def guard_probe(objects):
    """Behavioural check that the as_forged recursion guard is not stuck.

    For every object whose *type* routes __signature__ through a non-data
    descriptor that is sigtools' as_forged, reading __signature__ must not raise
    AttributeError.  Returns a list of (name, problem)."""
    from sigtools import specifiers
    problems = []
    asf = getattr(specifiers, 'as_forged', None)
    for name, o in objects:
        t = o if isinstance(o, type) else type(o)
        desc = None
        for klass in t.__mro__:
            if '__signature__' in klass.__dict__:
                desc = klass.__dict__['__signature__']
                break
        if desc is None or desc is not asf:
            continue
        if isinstance(o, type):
            continue
        try:
            o.__signature__
        except AttributeError:
            problems.append((name, 'as_forged raises AttributeError at quiescence'))
        except Exception:
            pass
    cc = getattr(asf, 'currently_computing', None)
    if cc is not None:
        try:
            n = len(cc)
        except TypeError:
            n = 0
        if n:
            problems.append(('as_forged', 'currently_computing not empty ({0})'.format(n)))
    return problems
