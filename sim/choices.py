"""One integer decides everything.

A run draws *all* its decisions (world, programs, operations, faults, schedule)
through ``Choices.draw``; the recorded list of integers is the replay.  In replay
mode the list is fed back (value modulo the range, 0 once it is exhausted, and 0
always means "the simplest alternative").  Logging never draws.
"""

import hashlib
import random


def derive_seed(*parts):
    """Stable 64-bit seed from arbitrary parts (never Python's hash())."""
    h = hashlib.sha256(repr(parts).encode()).digest()
    return int.from_bytes(h[:8], 'big')


class Choices(object):
    def __init__(self, seed=None, replay=None):
        self.seed = seed
        self.replay = None if replay is None else list(replay)
        self.pos = 0
        self.rng = random.Random(seed) if replay is None else None
        self.recorded = []
        self.labels = []

    @property
    def replaying(self):
        return self.replay is not None

    def draw(self, n, label=None):
        """An integer in range(n).  n <= 1 draws nothing and returns 0."""
        if n <= 1:
            return 0
        if self.replay is not None:
            if self.pos < len(self.replay):
                v = self.replay[self.pos] % n
            else:
                v = 0
            self.pos += 1
        else:
            v = self.rng.randrange(n)
        self.recorded.append(v)
        self.labels.append(label)
        return v

    def pick(self, seq, label=None):
        return seq[self.draw(len(seq), label)]

    def chance(self, num, den, label=None):
        """True with probability num/den; value 0 (the simple alternative) is False."""
        if num <= 0:
            return False
        v = self.draw(den, label)
        return v >= den - num

    def weighted(self, weights, label=None):
        """Index drawn with the given integer weights; index 0 is the simplest."""
        total = sum(weights)
        v = self.draw(total, label)
        acc = 0
        for i, w in enumerate(weights):
            acc += w
            if v < acc:
                return i
        return len(weights) - 1

    def subset(self, seq, label=None):
        return [x for x in seq if self.draw(2, label)]

    def fork(self):
        """Snapshot (list) of what has been recorded so far."""
        return list(self.recorded)


def shrink(choices, still_fails, max_tries=400):
    """Minimise a choice list while ``still_fails(list)`` keeps returning True.

    Passes: truncate tail, delete chunks, zero values, halve/decrement values.
    ``still_fails`` must compare the *violation class*, not mere failure.
    """
    best = list(choices)
    tries = [0]

    def attempt(cand):
        if tries[0] >= max_tries:
            return False
        if cand == best:
            return False
        tries[0] += 1
        try:
            return bool(still_fails(cand))
        except Exception:
            return False

    # strip trailing zeros (they are implied)
    while best and best[-1] == 0:
        best.pop()
    improved = True
    while improved and tries[0] < max_tries:
        improved = False
        # truncate
        n = len(best)
        cut = n // 2
        while cut >= 1:
            cand = best[:len(best) - cut]
            if len(cand) < len(best) and attempt(cand):
                best = cand
                improved = True
            else:
                cut //= 2
        # delete chunks
        size = max(1, len(best) // 4)
        while size >= 1:
            i = 0
            while i + size <= len(best):
                cand = best[:i] + best[i + size:]
                if attempt(cand):
                    best = cand
                    improved = True
                else:
                    i += size
            size //= 2
        # zero / reduce values
        for i in range(len(best)):
            if i >= len(best):
                break
            v = best[i]
            if v == 0:
                continue
            for nv in (0, v // 2, v - 1):
                if nv == v or nv < 0:
                    continue
                cand = list(best)
                cand[i] = nv
                if attempt(cand):
                    best = cand
                    improved = True
                    break
        while best and best[-1] == 0:
            best.pop()
    return best
