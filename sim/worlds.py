"""Worlds: fresh object graphs built per run from generated, in-memory source.

Module text is generated from drawn parameters, compiled under a unique
pseudo-filename and registered in ``linecache.cache`` with mtime None, so
``inspect.getsource`` (hence sigtools' AST discovery) works with no disk I/O.
"""

import sys
import types
import linecache

# ---------------------------------------------------------------------------
# signature shapes (small universe: the shared-state behaviour, not the algebra,
# is under test)

INNER_SHAPES = [
    'x, y, *, z',
    'x, y=1',
    'x, /, y, *, z=2',
    'u, v',
    'x, *rest, k=3',
    'x, **kw',
    'x',
    'x: int, y: str = "s", *, z: float = 1.5',
]

# (def params, star-args name or None, star-kwargs name or None)
WRAP_SHAPES = [
    ('a, *args, **kwargs', 'args', 'kwargs'),
    ('*args, **kwargs', 'args', 'kwargs'),
    ('a, *args, p=1, **kwargs', 'args', 'kwargs'),
    ('a, b=2, *args, **kwargs', 'args', 'kwargs'),
    ('a, *rest, **kw', 'rest', 'kw'),
    ('a, *args', 'args', None),
    ('a, **kwargs', None, 'kwargs'),
]

# how the wrapper forwards: format with callee expression, *name, **name
CALL_VARIANTS = [
    '{f}({stars})',
    '{f}(a0, {stars})',
    '{f}({stars_pos}z=None{stars_kw})',
]


def _fwd_call(callee, shape, variant):
    _, va, vk = shape
    stars = ', '.join(x for x in (('*' + va) if va else None, ('**' + vk) if vk else None) if x)
    if variant == 0 or (variant == 2 and not vk):
        return '{0}({1})'.format(callee, stars)
    if variant == 1:
        return '{0}(None, {1})'.format(callee, stars)
    # variant 2: keyword between the stars
    pos = ('*' + va + ', ') if va else ''
    return '{0}({1}z=None, **{2})'.format(callee, pos, vk)


def draw_inner(ch, need=None):
    shapes = INNER_SHAPES
    if need:
        shapes = [s for s in shapes if all(n in _names_of(s) for n in need)]
    return ch.pick(shapes, 'inner-shape')


def _names_of(shape):
    out = []
    for part in shape.split(','):
        part = part.strip().lstrip('*')
        if not part or part == '/':
            continue
        out.append(part.split(':')[0].split('=')[0].strip())
    return out


def draw_wrap(ch, both=False):
    shapes = WRAP_SHAPES[:5] if both else WRAP_SHAPES
    return ch.pick(shapes, 'wrap-shape')


# ---------------------------------------------------------------------------
# templates: each returns a spec dict
#   {'template', 'params', 'source', 'subjects': {label: expr}, 'tags': set}

HEADER = (
    'import functools, inspect\n'
    'import sigtools\n'
    'from sigtools import specifiers, modifiers, wrappers, signatures, support\n'
)


def tpl_wraps(ch, max_depth=3):
    depth = 1 + ch.draw(max_depth, 'depth')
    inner = draw_inner(ch)
    lines = [HEADER, 'def inner({0}):\n    return "inner"\n'.format(inner)]
    layers = []
    expr = 'inner'
    for i in range(1, depth + 1):
        shape = draw_wrap(ch)
        variant = ch.draw(3, 'call-variant')
        # where the forwarding call sits: in the body, in a lambda, or in a nested def (the
        # AST walker defers those and revisits them)
        nested = ch.draw(3, 'nested-forwarding')
        layers.append((shape[0], variant, nested))
        call = _fwd_call('f', shape, variant)
        body = ['        return {0}\n'.format(call),
                '        return (lambda: {0})()\n'.format(call),
                '        def later{0}():\n            return {1}\n        return later{0}()\n'.format(i, call)][nested]
        lines.append(
            'def deco{i}(f):\n'
            '    @functools.wraps(f)\n'
            '    def w{i}({shape}):\n'
            '{body}'
            '    return w{i}\n'.format(i=i, shape=shape[0], body=body))
        expr = 'deco{0}({1})'.format(i, expr)
    lines.append('w = {0}\n'.format(expr))
    subjects = {'w': 'w', 'inner': 'inner', 'partial(w)': 'functools.partial(w, 1)'}
    if depth >= 2:
        subjects['w.__wrapped__'] = 'w.__wrapped__'
    return dict(template='wraps', params=dict(depth=depth, inner=inner, layers=layers),
                source='\n'.join(lines), subjects=subjects, tags={'wrapped'})


def tpl_wraps_annot(ch):
    inner = draw_inner(ch, need=['x'])
    shape = draw_wrap(ch)
    variant = ch.draw(3, 'call-variant')
    depth = 1 + ch.draw(2, 'depth')
    lines = [HEADER,
             '@modifiers.annotate("R", x="X")\n'
             'def inner({0}):\n    return "inner"\n'.format(inner)]
    expr = 'inner'
    for i in range(1, depth + 1):
        lines.append(
            'def deco{i}(f):\n'
            '    @functools.wraps(f)\n'
            '    def w{i}({shape}):\n'
            '        return {call}\n'
            '    return w{i}\n'.format(i=i, shape=shape[0], call=_fwd_call('f', shape, variant)))
        expr = 'deco{0}({1})'.format(i, expr)
    lines.append('w = {0}\n'.format(expr))
    return dict(template='wraps_annot', params=dict(depth=depth, inner=inner, shape=shape[0], variant=variant),
                source='\n'.join(lines), subjects={'w': 'w', 'inner': 'inner'},
                tags={'wrapped', 'sigattr'})


def tpl_sigattr(ch):
    inner = draw_inner(ch)
    shape = draw_wrap(ch)
    how = ch.draw(5, 'sigattr-how')
    handbuilt = ('signatures.UpgradedSignature([signatures.UpgradedParameter("m", inspect.Parameter.POSITIONAL_OR_KEYWORD), '
                 'signatures.UpgradedParameter("rest", inspect.Parameter.VAR_POSITIONAL), '
                 'signatures.UpgradedParameter("kw", inspect.Parameter.VAR_KEYWORD)])')
    setter = [
        'f.__signature__ = inspect.signature(target)',
        'f.__signature__ = signatures.signature(target)',
        'f.__signature__ = support.s("m, n=1, *args, **kwargs")',
        'f.__signature__ = ' + handbuilt,
        'SHARED = ' + handbuilt + '\nf.__signature__ = SHARED\ntarget.__signature__ = SHARED',
    ][how]
    wrapped_too = ch.draw(2, 'also-wrapped')
    src = (HEADER +
           'def target({inner}):\n    return "target"\n\n'
           'def f({shape}):\n    return {call}\n\n'
           '{setter}\n'.format(inner=inner, shape=shape[0],
                               call=_fwd_call('target', shape, 0), setter=setter))
    if wrapped_too:
        src += 'f.__wrapped__ = target\n'
    return dict(template='sigattr', params=dict(inner=inner, shape=shape[0], how=how, wrapped=wrapped_too),
                source=src, subjects={'f': 'f', 'partial(f)': 'functools.partial(f)',
                                      # a keyword the signature does not name: it lands in **kwargs
                                      'partial(f, extra=)': 'functools.partial(f, zzextra=1)'},
                tags={'sigattr'} | ({'wrapped'} if wrapped_too else set()))


def tpl_fwd(ch):
    inner = draw_inner(ch)
    shape = draw_wrap(ch, both=True)
    emulate = ch.pick([None, False, True], 'emulate')
    nargs = ch.draw(2, 'num_args')
    if nargs and not _names_of(inner):
        nargs = 0
    chain = ch.draw(2, 'chain')
    src = HEADER + 'def inner({0}):\n    return "inner"\n\n'.format(inner)
    callee = 'inner'
    if chain:
        src += ('@specifiers.forwards_to_function(inner)\n'
                'def mid(m, *args, **kwargs):\n    return inner(*args, **kwargs)\n\n')
        callee = 'mid'
    args = callee + (', 1' if nargs else '') + (', emulate={0!r}'.format(emulate) if emulate is not None else '')
    call = '{0}({1}*{2}, **{3})'.format(callee, 'None, ' if nargs else '', shape[1], shape[2])
    src += ('@specifiers.forwards_to_function({args})\n'
            'def outer({shape}):\n    return {call}\n'.format(args=args, shape=shape[0], call=call))
    subjects = {'outer': 'outer', 'partial(outer)': 'functools.partial(outer)'}
    tags = {'forger'}
    if emulate is True:
        tags |= {'asforged', 'wrapped'}
    return dict(template='fwd', params=dict(inner=inner, shape=shape[0], emulate=emulate, nargs=nargs, chain=chain),
                source=src, subjects=subjects, tags=tags)


def tpl_meth(ch):
    base_m = draw_inner(ch)
    target = draw_inner(ch)
    shape = draw_wrap(ch, both=True)
    sep = ', ' if base_m else ''
    tsep = ', ' if target else ''
    src = (HEADER +
           'class Base(object):\n'
           '    def m(self{sep}{base_m}):\n        return "Base.m"\n'
           '    def target(self{tsep}{target}):\n        return "target"\n\n'
           'class C(Base):\n'
           '    @specifiers.forwards_to_method("target")\n'
           '    def fm(self, {shape}):\n        return self.target(*{va}, **{vk})\n'
           '    @specifiers.forwards_to_super()\n'
           '    def m(self, {shape}):\n        return super().m(*{va}, **{vk})\n'
           '    def plain(self, {shape}):\n        return self.target(*{va}, **{vk})\n\n'
           '@specifiers.apply_forwards_to_super("m")\n'
           'class D(Base):\n'
           '    def m(self, {shape}):\n        return super(D, self).m(*{va}, **{vk})\n\n'
           'class E(Base):\n'
           '    @specifiers.forwards_to_method("target", emulate=True)\n'
           '    def __init__(self, {shape}):\n        pass\n'
           '    @specifiers.forwards_to_method("target", emulate=True)\n'
           '    def __call__(self, {shape}):\n        return self.target(*{va}, **{vk})\n'
           '    @specifiers.forwards_to_method("target", emulate=True)\n'
           '    def fe(self, {shape}):\n        return self.target(*{va}, **{vk})\n\n'
           'def hook({target}):\n    return "hook"\n\n'
           'class P(object):\n'
           '    # implicitly transformed names (classmethod / staticmethod without the decorator)\n'
           '    @specifiers.forwards_to_function(hook, emulate=True)\n'
           '    def __init_subclass__(cls, {shape}):\n        hook(*{va}, **{vk})\n'
           '    @specifiers.forwards_to_function(hook, emulate=True)\n'
           '    def __class_getitem__(cls, {shape}):\n        return hook(*{va}, **{vk})\n\n'
           'inst = C()\ninst2 = C()\ndinst = D()\neinst = object.__new__(E)\n'
           ).format(sep=sep, base_m=base_m, tsep=tsep, target=target,
                    shape=shape[0], va=shape[1], vk=shape[2])
    subjects = {
        'inst.fm': 'inst.fm', 'inst.m': 'inst.m', 'C.fm': 'C.fm', 'C.m': 'C.m',
        'dinst.m': 'dinst.m', 'D.m': 'D.m', 'inst2.fm': 'inst2.fm',
        'inst.plain': 'inst.plain', 'C': 'C',
        # members wrapped with emulate=True: looked up (hence bound for the first time) by the
        # retrieval itself when the subject is the class or a callable instance
        'E': 'E', 'einst': 'einst', 'einst.fe': 'einst.fe',
        'P.__init_subclass__': 'P.__init_subclass__', 'P.__class_getitem__': 'P.__class_getitem__',
    }
    return dict(template='meth', params=dict(base_m=base_m, target=target, shape=shape[0]),
                source=src, subjects=subjects, tags={'forger'})


MOD_STACKS = [
    ['modifiers.kwoargs("c")'],
    ['modifiers.posoargs("a")'],
    ['modifiers.autokwoargs'],
    ['modifiers.kwoargs("c")', 'modifiers.posoargs("a")'],
    ['modifiers.posoargs("a")', 'modifiers.kwoargs("c")'],
    ['modifiers.annotate(b="B")', 'modifiers.kwoargs("c")'],
    ['modifiers.kwoargs("c")', 'modifiers.annotate("R", a="A")'],
    ['modifiers.kwoargs(start="b")'],
    ['modifiers.posoargs(end="a")'],
    ['modifiers.autokwoargs(exceptions=("b",))'],
    ['modifiers.annotate("R", c="C")', 'modifiers.autokwoargs', 'modifiers.posoargs("a")'],
]


def tpl_mod(ch):
    fstack = ch.pick(MOD_STACKS, 'fstack')
    mstack = ch.pick([st for st in MOD_STACKS if not any('posoargs' in d for d in st)], 'mstack')
    target = draw_inner(ch)
    fwd = ch.draw(2, 'forwarding-body')
    tsep = ', ' if target else ''
    fdeco = ''.join('@{0}\n'.format(d) for d in fstack)
    mdeco = ''.join('    @{0}\n'.format(d) for d in mstack)
    if fwd:
        fparams, fbody = 'a, b=0, c=1, *args, **kwargs', 'return g(*args, **kwargs)'
        mparams, mbody = 'self, a, b=0, c=1, *args, **kwargs', 'return self.t(*args, **kwargs)'
    else:
        fparams, fbody = 'a, b=0, c=1', 'return (a, b, c)'
        mparams, mbody = 'self, a, b=0, c=1', 'return (a, b, c)'
    src = (HEADER +
           'def g({target}):\n    return "g"\n\n'
           '{fdeco}def f({fparams}):\n    {fbody}\n\n'
           'class K(object):\n'
           '    def t(self{tsep}{target}):\n        return "t"\n'
           '{mdeco}    def m({mparams}):\n        {mbody}\n\n'
           'k = K()\nk2 = K()\n'
           ).format(target=target, tsep=tsep, fdeco=fdeco, mdeco=mdeco,
                    fparams=fparams, fbody=fbody, mparams=mparams, mbody=mbody)
    subjects = {'f': 'f', 'k.m': 'k.m', 'K.m': 'K.m', 'k2.m': 'k2.m',
                "K.__dict__['m']": "K.__dict__['m']", 'partial(f)': 'functools.partial(f, 1)'}
    return dict(template='mod', params=dict(fstack=fstack, mstack=mstack, target=target, fwd=fwd),
                source=src, subjects=subjects, tags={'modifiers', 'sigattr'})


def tpl_deco(ch, max_forged=1):
    flavours = ['decorator', 'wrapper_decorator']
    fl = ch.pick(flavours, 'flavour')
    inner = draw_inner(ch)
    meth = draw_inner(ch)
    stacked = 1 + ch.draw(max_forged, 'forged-layers')
    extra_wraps = ch.draw(2, 'extra-wraps')
    msep = ', ' if meth else ''
    src = HEADER
    for i in range(1, stacked + 1):
        src += ('@wrappers.{fl}\n'
                'def d{i}(func, *args, p{i}={i}, **kwargs):\n'
                '    return func(*args, **kwargs)\n\n').format(fl=fl, i=i)
    if extra_wraps:
        src += ('def plainwrap(f):\n'
                '    @functools.wraps(f)\n'
                '    def pw(e, *args, **kwargs):\n'
                '        return f(*args, **kwargs)\n'
                '    return pw\n\n')
    decos = ''.join('@d{0}\n'.format(i) for i in range(stacked, 0, -1))
    if extra_wraps:
        decos = '@plainwrap\n' + decos
    src += '{decos}def f({inner}):\n    return "f"\n\n'.format(decos=decos, inner=inner)
    src += ('class K(object):\n'
            '    @d1\n'
            '    def m(self{msep}{meth}):\n        return "m"\n'
            '    @staticmethod\n'
            '    @d1\n'
            '    def s({meth}):\n        return "s"\n\n'
            'k = K()\nk2 = K()\n').format(msep=msep, meth=meth)
    subjects = {'f': 'f', 'k.m': 'k.m', 'K.m': 'K.m', 'K.s': 'K.s', 'k2.m': 'k2.m'}
    return dict(template='deco', params=dict(flavour=fl, inner=inner, meth=meth, stacked=stacked, extra_wraps=extra_wraps),
                source=src, subjects=subjects, tags={'asforged', 'wrapped'})


def tpl_asforged(ch):
    target = draw_inner(ch)
    shape = draw_wrap(ch, both=True)
    declared = ch.draw(2, 'declared')
    tsep = ', ' if target else ''
    deco = '    @specifiers.forwards_to_method("method")\n' if declared else ''
    src = (HEADER +
           'class MyCallable(object):\n'
           '    __signature__ = specifiers.as_forged\n'
           '{deco}'
           '    def __call__(self, {shape}):\n        return self.method(*{va}, **{vk})\n'
           '    def method(self{tsep}{target}):\n        return "method"\n\n'
           'obj = MyCallable()\nobj2 = MyCallable()\n'
           ).format(deco=deco, shape=shape[0], va=shape[1], vk=shape[2], tsep=tsep, target=target)
    return dict(template='asforged', params=dict(target=target, shape=shape[0], declared=declared),
                source=src, subjects={'obj': 'obj', 'obj2': 'obj2', 'MyCallable': 'MyCallable'},
                tags={'asforged', 'forger'})


def tpl_comb(ch):
    n = 1 + ch.draw(3, 'n-functions')
    shapes = []
    src = HEADER + 'def tail(x=0, y=1, *, z=2):\n    return "tail"\n\n'
    names = []
    for i in range(n):
        kind = ch.draw(3, 'comb-kind')
        if kind == 0:
            src += 'def c{0}(arg, x=0, *args, **kwargs):\n    return tail(x, *args, **kwargs)\n\n'.format(i)
        elif kind == 1:
            src += 'def c{0}(arg, x=0, y=1, *, z=2):\n    return arg\n\n'.format(i)
        else:
            src += ('@specifiers.forwards_to_function(tail)\n'
                    'def c{0}(arg, *args, **kwargs):\n    return tail(*args, **kwargs)\n\n').format(i)
        shapes.append(kind)
        names.append('c{0}'.format(i))
    src += 'comb = wrappers.Combination({0})\n'.format(', '.join(names))
    return dict(template='comb', params=dict(kinds=shapes), source=src,
                subjects={'comb': 'comb', 'c0': 'c0'}, tags={'forger'})


HOSTILE_EXC = ['ValueError', 'TypeError', 'AttributeError', 'KeyError', 'RuntimeError']


def tpl_hostile(ch):
    kind = ch.draw(6, 'hostile-kind')
    exc = ch.pick(HOSTILE_EXC, 'hostile-exc')
    src = HEADER + 'def inner(x, y=1):\n    return "inner"\n\n'
    if kind == 0:       # __wrapped__ property that raises
        src += ('class H(object):\n'
                '    @property\n'
                '    def __wrapped__(self):\n        raise {exc}("hostile __wrapped__")\n'
                '    def __call__(self, a, *args, **kwargs):\n        return inner(*args, **kwargs)\n\n'
                'h = H()\n').format(exc=exc)
        subjects = {'h': 'h'}
    elif kind == 1:     # __signature__ property that raises
        src += ('class H(object):\n'
                '    @property\n'
                '    def __signature__(self):\n        raise {exc}("hostile __signature__")\n'
                '    def __call__(self, a, *args, **kwargs):\n        return inner(*args, **kwargs)\n\n'
                'h = H()\n'
                'def user(u, *args, **kwargs):\n    return h(*args, **kwargs)\n').format(exc=exc)
        subjects = {'h': 'h', 'user': 'user'}
    elif kind == 2:     # forger that raises
        src += ('def forger(obj):\n    raise {exc}("hostile forger")\n\n'
                'def h(a, *args, **kwargs):\n    return inner(*args, **kwargs)\n\n'
                'h = specifiers.set_signature_forger(h, forger)\n'
                'def user(u, *args, **kwargs):\n    return h(*args, **kwargs)\n').format(exc=exc)
        subjects = {'h': 'h', 'user': 'user', 'partial(h)': 'functools.partial(h, 1)'}
    elif kind == 3:     # forger returning None
        src += ('def forger(obj):\n    return None\n\n'
                'def h(a, *args, **kwargs):\n    return inner(*args, **kwargs)\n\n'
                'h = specifiers.set_signature_forger(h, forger)\n')
        subjects = {'h': 'h'}
    elif kind == 4:     # callee whose __eq__ raises (wrapped_func == functools.partial)
        src += ('class E(object):\n'
                '    def __eq__(self, other):\n        raise {exc}("hostile __eq__")\n'
                '    __hash__ = object.__hash__\n'
                '    def __call__(self, x, y=1):\n        return "E"\n\n'
                'e = E()\n'
                '@functools.wraps(inner)\n'
                'def h(a, *args, **kwargs):\n    return e(*args, **kwargs)\n').format(exc=exc)
        subjects = {'h': 'h'}
    else:               # functools.wraps layer around an object with a failing __signature__
        src += ('class S(object):\n'
                '    @property\n'
                '    def __signature__(self):\n        raise {exc}("hostile __signature__")\n'
                '    def __call__(self, x, y=1):\n        return "S"\n\n'
                's = S()\n'
                'def deco(f):\n'
                '    @functools.wraps(f, assigned=())\n'
                '    def h(a, *args, **kwargs):\n        return f(*args, **kwargs)\n'
                '    return h\n\n'
                'h = deco(s)\n').format(exc=exc)
        subjects = {'h': 'h', 's': 's'}
    return dict(template='hostile', params=dict(kind=kind, exc=exc), source=src,
                subjects=subjects, tags={'hostile', 'wrapped'})


def tpl_builtin(ch):
    src = (HEADER +
           '@functools.lru_cache(maxsize=None)\n'
           'def cached(a, *args, **kwargs):\n    return inner(*args, **kwargs)\n\n'
           'def inner(x, y=1):\n    return "inner"\n\n'
           'class K(object):\n'
           '    @staticmethod\n'
           '    def sm(a, *args, **kwargs):\n        return inner(*args, **kwargs)\n'
           '    @classmethod\n'
           '    def cm(cls, a, *args, **kwargs):\n        return inner(*args, **kwargs)\n'
           '    def __init__(self, a=0, *args, **kwargs):\n        self.v = inner(0, *args, **kwargs)\n\n'
           'def usemax(a, *args, **kwargs):\n    return max(*args, **kwargs)\n\n'
           'def usecls(a, *args, **kwargs):\n    return K(*args, **kwargs)\n\n'
           'k = K()\n')
    subjects = {
        'cached': 'cached', "K.__dict__['sm']": "K.__dict__['sm']",
        "K.__dict__['cm']": "K.__dict__['cm']", 'K.sm': 'K.sm', 'K.cm': 'K.cm', 'k.cm': 'k.cm',
        'K': 'K', 'usemax': 'usemax', 'usecls': 'usecls', 'len': 'len', 'max': 'max',
        'dict.get': 'dict.get', 'classmethod': 'classmethod', 'int': 'int',
    }
    # one drawn subject keeps the label set small per run
    keys = sorted(subjects)
    k = ch.pick(keys, 'builtin-subject')
    return dict(template='builtin', params=dict(subject=k), source=src,
                subjects={k: subjects[k]}, tags={'builtin', 'wrapped'})


_OBS_BODY = (
    '    def __getattribute__(self, name):\n        return {base}.__getattribute__(self, name)\n'
    '    def __setattr__(self, name, value):\n        {base}.__setattr__(self, name, value)\n'
    '    def __delattr__(self, name):\n        {base}.__delattr__(self, name)\n'
)


def tpl_observed(ch):
    """Objects whose every attribute read / write / delete goes through Python-level
    __getattribute__/__setattr__/__delattr__ defined in the world: each access sigtools makes on
    them is a crossing, hence a crash point ("attribute getters" of the fault model)."""
    kind = ch.draw(6, 'observed-kind')
    inner = draw_inner(ch)
    shape = draw_wrap(ch, both=True)
    obs = _OBS_BODY.format(base='object')
    src = HEADER + 'def inner({0}):\n    return "inner"\n\n'.format(inner)
    if kind in (0, 1, 2, 5):
        src += ('class Obs(object):\n' + obs +
                '    def __call__(self, {shape}):\n        return inner(*{va}, **{vk})\n\n'
                'o = Obs()\n').format(shape=shape[0], va=shape[1], vk=shape[2])
        if kind in (0, 2, 5):
            src += 'functools.update_wrapper(o, inner)\n'
        if kind in (1, 2):
            src += 'o.__signature__ = support.s("m, n=1, *args, **kwargs")\n'
        src += 'def user(u, *args, **kwargs):\n    return o(*args, **kwargs)\n\n'
        subjects = {'o': 'o', 'partial(o)': 'functools.partial(o, 1)', 'user': 'user'}
        if kind == 5:
            src += ('@functools.wraps(o)\n'
                    'def w(q, *args, **kwargs):\n    return o(*args, **kwargs)\n\n')
            subjects['w'] = 'w'
    elif kind == 3:
        declared = ch.draw(2, 'declared')
        tsep = ', ' if inner else ''
        src += ('class ObsF(object):\n' + obs +
                '    __signature__ = specifiers.as_forged\n'
                '{deco}'
                '    def __call__(self, {shape}):\n        return self.method(*{va}, **{vk})\n'
                '    def method(self{tsep}{inner}):\n        return "method"\n\n'
                'o = ObsF()\no2 = ObsF()\n'
                ).format(deco='    @specifiers.forwards_to_method("method")\n' if declared else '',
                         shape=shape[0], va=shape[1], vk=shape[2], tsep=tsep, inner=inner)
        subjects = {'o': 'o', 'o2': 'o2', 'ObsF': 'ObsF'}
    else:
        mstack = ch.pick([st for st in MOD_STACKS if not any('posoargs' in d for d in st)], 'mstack')
        mdeco = ''.join('    @{0}\n'.format(d) for d in mstack)
        tsep = ', ' if inner else ''
        src += ('def hook0({inner}):\n    return "hook0"\n\n'
                'class ObsMeta(type):\n' + _OBS_BODY.format(base='type') +
                '    def __new__(mcs, name, bases, ns, **kw):\n        return type.__new__(mcs, name, bases, ns)\n\n'
                'class K(object, metaclass=ObsMeta):\n' + obs +
                '    @specifiers.forwards_to_function(hook0, emulate=True)\n'
                '    def __init_subclass__(cls, {shape}):\n        hook0(*{va}, **{vk})\n'
                '    @specifiers.forwards_to_method("t", emulate=True)\n'
                '    def fe(self, {shape}):\n        return self.t(*{va}, **{vk})\n'
                '    @specifiers.forwards_to_method("fe")\n'
                '    def ffe(self, {shape}):\n        return self.fe(*{va}, **{vk})\n'
                '    def t(self{tsep}{inner}):\n        return "t"\n'
                '{mdeco}    def m(self, a, b=0, c=1, *args, **kwargs):\n        return self.t(*args, **kwargs)\n'
                '    @specifiers.forwards_to_method("t")\n'
                '    def fm(self, {shape}):\n        return self.t(*{va}, **{vk})\n\n'
                'k = K()\nk2 = K()\n'
                ).format(tsep=tsep, inner=inner, mdeco=mdeco, shape=shape[0], va=shape[1], vk=shape[2])
        subjects = {'k.m': 'k.m', 'K.m': 'K.m', 'k.fm': 'k.fm', 'K.fm': 'K.fm', 'k2.m': 'k2.m', 'K': 'K',
                    'K.__init_subclass__': 'K.__init_subclass__', 'k.fe': 'k.fe', 'k.ffe': 'k.ffe'}
    return dict(template='observed', params=dict(kind=kind, inner=inner, shape=shape[0], src_len=len(src)), source=src,
                subjects=subjects, tags={'observed', 'wrapped'})


def tpl_instdep(ch):
    """Signatures that depend on *which instance* was asked: methods forwarding to a callable
    stored on the instance (declared and discovered), under modifiers, plus as_forged callables
    with a per-instance target.  A wrapper bound to the wrong instance gives a visibly different
    answer here."""
    ia = draw_inner(ch)
    ib = ch.pick([s for s in INNER_SHAPES if s != ia], 'inner-b')
    mstack = ch.pick([st for st in MOD_STACKS if not any('posoargs' in d for d in st)], 'mstack')
    shape = draw_wrap(ch, both=True)
    mdeco = ''.join('    @{0}\n'.format(d) for d in mstack)
    src = (HEADER +
           'def ga({ia}):\n    return "ga"\n\n'
           'def gb({ib}):\n    return "gb"\n\n'
           'class K(object):\n'
           '    def __init__(self, cb):\n        self.cb = cb\n'
           '{mdeco}    def m(self, a, b=0, c=1, *args, **kwargs):\n        return self.cb(*args, **kwargs)\n'
           '    @specifiers.forwards_to_method("cb")\n'
           '{mdeco}    def fm(self, a, b=0, c=1, *args, **kwargs):\n        return self.cb(*args, **kwargs)\n'
           '    @specifiers.forwards_to_method("cb")\n'
           '    def pm(self, {shape}):\n        return self.cb(*{va}, **{vk})\n\n'
           'class MyC(object):\n'
           '    __signature__ = specifiers.as_forged\n'
           '    def __init__(self, cb):\n        self.cb = cb\n'
           '    @specifiers.forwards_to_method("cb")\n'
           '    def __call__(self, {shape}):\n        return self.cb(*{va}, **{vk})\n\n'
           'k = K(ga)\nk2 = K(gb)\noa = MyC(ga)\nob = MyC(gb)\n'
           ).format(ia=ia, ib=ib, mdeco=mdeco, shape=shape[0], va=shape[1], vk=shape[2])
    subjects = {'k.m': 'k.m', 'k2.m': 'k2.m', 'k.fm': 'k.fm', 'k2.fm': 'k2.fm', 'k.pm': 'k.pm',
                'k2.pm': 'k2.pm', 'K.fm': 'K.fm', 'oa': 'oa', 'ob': 'ob'}
    return dict(template='instdep', params=dict(ia=ia, ib=ib, mstack=mstack, shape=shape[0]), source=src,
                subjects=subjects, tags={'modifiers', 'forger', 'asforged'})


def tpl_chain(ch):
    """Delegation through a chain of objects sharing one forwarding method: discovery re-enters
    that one function once per link, each time with another known `self`."""
    depth = 3 + ch.draw(4, 'chain-depth')
    end = draw_inner(ch)
    esep = ', ' if end else ''
    src = (HEADER +
           'class End(object):\n    def run(self{esep}{end}):\n        return "end"\n\n'
           'class Link(object):\n    def __init__(self, nxt):\n        self.nxt = nxt\n'
           '    def run(self, *args, **kwargs):\n        return self.nxt.run(*args, **kwargs)\n\n'
           'def make(n):\n    o = End()\n    for _ in range(n):\n        o = Link(o)\n    return o\n\n'
           'chain_a = make({depth})\nchain_b = make({depth})\nshort = make(1)\n'
           ).format(esep=esep, end=end, depth=depth)
    subjects = {'chain_a.run': 'chain_a.run', 'chain_b.run': 'chain_b.run', 'short.run': 'short.run',
                'Link.run': 'Link.run'}
    return dict(template='chain', params=dict(depth=depth, end=end), source=src, subjects=subjects,
                tags={'chain'})


def tpl_deep(ch):
    """A forwarding function whose body is nested deeper than the AST walker gets by default
    (hundreds of chained operators), next to ordinary ones: whatever retrieval does about depth
    (limits, fallbacks) is process-wide by nature."""
    inner = draw_inner(ch)
    depth = [300, 600, 900][ch.draw(3, 'nesting-depth')]
    src = (HEADER + 'def inner({inner}):\n    return 0\n\n'
           'def deep(a, *args, **kwargs):\n    return inner(*args, **kwargs){plus}\n\n'
           'def shallow(b, *args, **kwargs):\n    return inner(*args, **kwargs)\n\n'
           'def shallow2(c, *args, **kwargs):\n    return shallow(c, *args, **kwargs)\n'
           ).format(inner=inner, plus=' + 1' * depth)
    return dict(template='deep', params=dict(inner=inner, depth=depth), source=src,
                subjects={'deep': 'deep', 'shallow': 'shallow', 'shallow2': 'shallow2'}, tags={'deep'})


def tpl_siblings(ch):
    """Two wrappers made by ONE decorator function: they share a code object and differ in what
    lives on the function object (keyword defaults, the wrapped callee)."""
    ia = draw_inner(ch)
    ib = ch.pick([x for x in INNER_SHAPES if x != ia], 'inner-b')
    src = (HEADER + 'def inner1({ia}):\n    return 1\n\ndef inner2({ib}):\n    return 2\n\n'
           'def deco(d):\n'
           '    def apply(f):\n'
           '        @functools.wraps(f)\n'
           '        def w(a, b=d, *args, p=d, **kwargs):\n            return f(*args, **kwargs)\n'
           '        return w\n'
           '    return apply\n\n'
           'w1 = deco(1)(inner1)\nw2 = deco(2)(inner2)\nw3 = deco(3)(inner1)\n').format(ia=ia, ib=ib)
    subjects = {'w1': 'w1', 'w2': 'w2', 'w3': 'w3', 'partial(w1)': 'functools.partial(w1, 0)',
                'partial(w2)': 'functools.partial(w2, 0)'}
    return dict(template='siblings', params=dict(ia=ia, ib=ib), source=src, subjects=subjects, tags={'wrapped'})


TEMPLATES = {
    'siblings': tpl_siblings,
    'deep': tpl_deep,
    'chain': tpl_chain,
    'instdep': tpl_instdep,
    'observed': tpl_observed,
    'wraps': tpl_wraps,
    'wraps_annot': tpl_wraps_annot,
    'sigattr': tpl_sigattr,
    'fwd': tpl_fwd,
    'meth': tpl_meth,
    'mod': tpl_mod,
    'deco': tpl_deco,
    'asforged': tpl_asforged,
    'comb': tpl_comb,
    'hostile': tpl_hostile,
    'builtin': tpl_builtin,
}


def draw_spec(ch, names, **kw):
    name = ch.pick(list(names), 'template')
    fn = TEMPLATES[name]
    if name == 'deco' and 'max_forged' in kw:
        return fn(ch, max_forged=kw['max_forged'])
    if name == 'wraps' and 'max_depth' in kw:
        return fn(ch, max_depth=kw['max_depth'])
    return fn(ch)


# ---------------------------------------------------------------------------
# building / tearing down

_counter = [0]


_CODE_CACHE = {}


class World(object):
    def __init__(self, spec, uid=None, shared_code_key=None):
        if uid is None:
            _counter[0] += 1
            uid = 'w{0}'.format(_counter[0])
        self.spec = spec
        self.uid = uid
        self.template = spec['template']
        self.modname = 'simworld_' + uid
        self.source = spec['source']
        self.shared = shared_code_key is not None
        if self.shared:
            # same text built over and over (twins): compile once under one pseudo-file that
            # stays registered; every build still executes into a fresh module
            self.filename = '<sim:{0}.py>'.format(shared_code_key)
            code = _CODE_CACHE.get((shared_code_key, self.source))
            if code is None:
                code = _CODE_CACHE[(shared_code_key, self.source)] = compile(self.source, self.filename, 'exec')
            if self.filename not in linecache.cache:
                linecache.cache[self.filename] = (len(self.source), None, self.source.splitlines(True), self.filename)
        else:
            self.filename = '<sim:{0}.py>'.format(uid)
            lines = self.source.splitlines(True)
            linecache.cache[self.filename] = (len(self.source), None, lines, self.filename)
            limit = sys.getrecursionlimit()
            sys.setrecursionlimit(max(limit, 20000))    # deeply nested generated expressions must compile
            try:
                code = compile(self.source, self.filename, 'exec')
            finally:
                sys.setrecursionlimit(limit)
        self.module = types.ModuleType(self.modname)
        self.module.__file__ = self.filename
        sys.modules[self.modname] = self.module
        exec(code, self.module.__dict__)
        self._exprs = {}
        for label, expr in spec['subjects'].items():
            self._exprs[label] = compile(expr, '<sim-expr>', 'eval')

    @property
    def ns(self):
        return self.module.__dict__

    def labels(self):
        return sorted(self._exprs)

    def subject(self, label):
        return eval(self._exprs[label], self.module.__dict__)

    def set_source_lines(self, lines):
        """Source seam: replace what 'the file' contains (None removes it)."""
        if lines is None:
            linecache.cache.pop(self.filename, None)
        else:
            text = ''.join(lines)
            linecache.cache[self.filename] = (len(text), None, list(lines), self.filename)

    def teardown(self):
        if not self.shared:
            linecache.cache.pop(self.filename, None)
        sys.modules.pop(self.modname, None)
        _forget_inspect_caches(self.modname, None if self.shared else self.filename)
        self.module.__dict__.clear()
        self._exprs.clear()


def _forget_inspect_caches(modname, filename):
    import inspect
    import os
    inspect._filesbymodname.pop(modname, None)
    if filename is None:
        return
    for f in (filename, os.path.abspath(filename), os.path.realpath(os.path.abspath(filename))):
        inspect.modulesbyfile.pop(f, None)


def build(spec, uid=None, shared_code_key=None):
    return World(spec, uid, shared_code_key)
